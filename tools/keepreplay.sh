#!/bin/sh
# tools/keepreplay.sh <ID> <patch> <dest.json> [seed] [n]   run the quick check of <ID> against a scratch copy with <patch>
# applied (usually the reverse of a fix) and keep the n-th reported replay (default: the first that is not a stored
# regression) as <dest.json>.  Maintenance only.
ID=$1; P=$2; D=$3; S=${4:-1}; N=${5:-1}
T=$(mktemp -d /tmp/qv-try-XXXXXX)
cp -r /repo/quantarhei $T/ && (cd $T && patch -p1 -s -i $P) || { echo PATCH-FAILED; rm -rf $T; exit 2; }
cd "$(dirname "$0")/.."
R=$(VERIF_REPO=$T VERIF_SEED=$S ./check $ID --no-evidence 2>&1 | grep "^VIOLATION" | grep "/replays/" | sed -n "${N}p" | sed 's/.*replay=//')
rm -rf $T
[ -n "$R" ] || { echo "no replay"; exit 1; }
mkdir -p "$(dirname $D)"; cp $R $D; echo "kept $R as $D"; grep -o '"signature": "[^"]*"' $D | head -2
