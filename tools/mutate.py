#!/venv/bin/python
"""Sensitivity protocol (DESIGN.md section 8).

  tools/mutate.py C19 [C17 ...]      run every mutant of the listed properties
  tools/mutate.py --all

Mutants come from
  mutants/<ID>.json          own mutants: [{"name", "file", "old", "new"}, ...] (textual replacement, must match once)
  seeded/<ID>/<name>/patch.diff   changes produced by independent sub-agents

For each mutant a scratch copy of /repo/quantarhei is made under a fresh temp
directory (outside /repo and /verif), the mutant applied, the property's quick
check run with VERIF_REPO pointing at the copy, and the copy removed.  A mutant
is *killed* when the check exits 1 with a VIOLATION line.  Results are merged
into sensitivity.json.  Not a registered check.
"""
import os
import sys
import json
import glob
import shutil
import subprocess
import tempfile
import time

HERE = os.path.dirname(os.path.dirname(os.path.abspath(__file__)))
REPO = "/repo"


def mutants_of(pid):
    out = []
    f = os.path.join(HERE, "mutants", pid + ".json")
    if os.path.exists(f):
        for m in json.load(open(f)):
            out.append(("own:" + m["name"], m))
    for d in sorted(glob.glob(os.path.join(HERE, "seeded", pid, "*"))):
        p = os.path.join(d, "patch.diff")
        if os.path.exists(p):
            meta = json.load(open(os.path.join(d, "meta.json"))) if os.path.exists(os.path.join(d, "meta.json")) else {}
            m = {"patch": p}
            if meta.get("superseded"):
                # no longer a breaking change on the repaired tree (its own demonstration passes): equivalent
                m["equivalent"] = True
                m["what"] = "SUPERSEDED: " + meta["superseded"]
            out.append(("seeded:" + os.path.basename(d), m))
    return out


def run_one(pid, name, m, tier="quick", seed="1", extra_env=None):
    tmp = tempfile.mkdtemp(prefix="qv-mut-")
    try:
        shutil.copytree(os.path.join(REPO, "quantarhei"), os.path.join(tmp, "quantarhei"),
                        ignore=shutil.ignore_patterns("__pycache__"))
        if "patch" in m:
            r = subprocess.run(["patch", "-p1", "-s", "-i", m["patch"]], cwd=tmp, capture_output=True, text=True)
            if r.returncode != 0:
                return {"status": "patch-failed", "out": (r.stdout + r.stderr)[-500:]}
        else:
            path = os.path.join(tmp, m["file"])
            s = open(path).read()
            nth = m.get("nth")          # 1-based occurrence to replace when the text occurs several times
            if nth is None and s.count(m["old"]) != 1:
                return {"status": "no-unique-match", "count": s.count(m["old"])}
            if nth is not None:
                if s.count(m["old"]) < nth:
                    return {"status": "no-unique-match", "count": s.count(m["old"])}
                parts = s.split(m["old"])
                s = m["old"].join(parts[:nth]) + m["new"] + m["old"].join(parts[nth:])
            else:
                s = s.replace(m["old"], m["new"])
            open(path, "w").write(s)
        env = dict(os.environ, VERIF_REPO=tmp, VERIF_SEED=seed)
        env.update(extra_env or {})
        t0 = time.time()
        r = subprocess.run([os.path.join(HERE, "check"), pid, "--tier", tier, "--no-evidence"],
                           cwd=HERE, env=env, capture_output=True, text=True)
        sigs = [l.strip() for l in r.stdout.splitlines() if l.startswith("  violated:")]
        killed = r.returncode == 1 and "VIOLATION property=%s" % pid in r.stdout
        return {"status": "killed" if killed else ("survived" if r.returncode == 0 else "error"),
                "exit": r.returncode, "wall_s": round(time.time() - t0, 1),
                "violations": [s[:300] for s in sigs[:3]],
                "tail": "" if killed else r.stdout[-600:] + r.stderr[-300:]}
    finally:
        shutil.rmtree(tmp, ignore_errors=True)
        # replay files written for mutants are not evidence of anything on the real tree


def main():
    """tools/mutate.py [IDs | --all] [--only=substr] [--thorough] [--seeds=1,2,3] [--jobs=N]

    Every (mutant, seed) pair is one task; a mutant counts as killed only if it is killed at every seed."""
    from concurrent.futures import ThreadPoolExecutor
    args = [a for a in sys.argv[1:] if not a.startswith("--")]
    tier = "thorough" if "--thorough" in sys.argv else "quick"
    if "--all" in sys.argv:
        args = sorted(set([os.path.basename(f)[:-5] for f in glob.glob(os.path.join(HERE, "mutants", "C*.json"))]
                          + [os.path.basename(d) for d in glob.glob(os.path.join(HERE, "seeded", "C*"))]))
    only, seeds, jobs = None, [os.environ.get("VERIF_SEED", "1")], 1
    for a in sys.argv[1:]:
        if a.startswith("--only="):
            only = a[7:]
        if a.startswith("--seeds="):
            seeds = a[8:].split(",")
        if a.startswith("--jobs="):
            jobs = int(a[7:])
    spath = os.path.join(HERE, "sensitivity.json")
    before = set(os.listdir(os.path.join(HERE, "replays"))) if os.path.isdir(os.path.join(HERE, "replays")) else set()
    tasks = []
    for pid in args:
        for name, m in mutants_of(pid):
            if only and not any(o in name for o in only.split(",")):
                continue
            for sd in seeds:
                tasks.append((pid, name, m, sd))

    def work(t):
        pid, name, m, sd = t
        return t, run_one(pid, name, m, tier, seed=sd)
    results = {}
    with ThreadPoolExecutor(max_workers=jobs) as ex:
        for (pid, name, m, sd), res in ex.map(work, tasks):
            results.setdefault((pid, name), []).append((sd, res, m))
            print("%s %-45s seed=%-3s %-9s %5.1fs %s" % (pid, name, sd, res["status"], res.get("wall_s", 0),
                                                        (res.get("violations") or [res.get("tail", "")[-200:]])[0][:140]))
            sys.stdout.flush()
    sens = json.load(open(spath)) if os.path.exists(spath) else {}
    for (pid, name), lst in sorted(results.items()):
        m = lst[0][2]
        killed = [sd for sd, r, _ in lst if r["status"] == "killed"]
        first = next((r for sd, r, _ in lst if r["status"] == "killed"), lst[0][1])
        res = dict(first)
        res["seeds"] = [sd for sd, _, _ in lst]
        res["killed_at_seeds"] = killed
        if len(killed) == len(lst):
            res["status"] = "killed"
        elif all(r["status"] in ("no-unique-match", "patch-failed") for _, r, _ in lst):
            res["status"] = lst[0][1]["status"]
        elif killed:
            res["status"] = "killed %d/%d" % (len(killed), len(lst))
        else:
            res["status"] = "survived"
        res["what"] = m.get("what", "")
        if m.get("equivalent") and not killed:
            res["status"] = "equivalent"
        sens.setdefault(pid, {})[name] = res
    json.dump(sens, open(spath, "w"), indent=1, sort_keys=True)
    bad = [(k, v["status"]) for p in sens for k, v in sens[p].items() if v["status"] not in ("killed", "equivalent")]
    print("not killed at every seed:", bad)
    # remove replay files produced against mutants
    rd = os.path.join(HERE, "replays")
    if os.path.isdir(rd):
        for n in set(os.listdir(rd)) - before:
            os.remove(os.path.join(rd, n))


if __name__ == "__main__":
    main()
