#!/usr/bin/env python3
"""tools/kf.py <id> <property> <status> <commit|-> <signature> <what> [regression]  -- append an entry to known_findings.json (maintenance only; never called by a check)."""
import json, sys, os
HERE = os.path.dirname(os.path.dirname(os.path.abspath(__file__)))
p = HERE + "/known_findings.json"
d = json.load(open(p))
i, prop, status, commit, sig, what = sys.argv[1:7]
e = {"id": i, "property": prop, "status": status, "signature": sig}
if commit != "-":
    e["commit"] = commit
    what = "fixed: property=%s %s %s" % (prop, commit, what)
e["what"] = what
if len(sys.argv) > 7:
    e["regression"] = sys.argv[7]
d["findings"] = [x for x in d["findings"] if x["id"] != i] + [e]
json.dump(d, open(p, "w"), indent=1)
print("ok", i)
