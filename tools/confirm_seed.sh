#!/bin/sh
# tools/confirm_seed.sh <worktree> <X>   confirm a seeded mutation mut<X>.diff/demo_<X>.py in a scratch worktree:
# demo passes on the clean tree, fails with the change, and the repository's pinned suite still gives the baseline result.
WT=$1; X=$2
cd "$WT" || exit 2
git checkout -q -- quantarhei
LOG=$WT/confirm_$X.log
: > $LOG
PYTHONPATH=$WT /venv/bin/python demo_$X.py >> $LOG 2>&1; echo "DEMO_CLEAN_EXIT=$?" >> $LOG
git apply mut$X.diff || { echo "APPLY_FAILED" >> $LOG; exit 1; }
PYTHONPATH=$WT /venv/bin/python demo_$X.py >> $LOG 2>&1; echo "DEMO_MUTATED_EXIT=$?" >> $LOG
OMP_NUM_THREADS=2 OPENBLAS_NUM_THREADS=2 MKL_NUM_THREADS=2 PY_IGNORE_IMPORTMISMATCH=1 PYTHONPATH=$WT /venv/bin/python -m pytest -q -p no:cacheprovider --timeout=900 --continue-on-collection-errors --junitxml=$WT/junit_$X.xml > $WT/suite_$X.log 2>&1
tail -3 $WT/suite_$X.log >> $LOG
/venv/bin/python - $WT/junit_$X.xml >> $LOG <<'P'
import sys, json, xml.etree.ElementTree as ET
base=set(json.load(open('/root/.vp/BASELINE.json'))['stable_pass'])
ok=set()
for tc in ET.parse(sys.argv[1]).getroot().iter('testcase'):
    if not any(c.tag in ('failure','error','skipped') for c in tc):
        ok.add(tc.get('classname')+'::'+tc.get('name'))
missing=sorted(base-ok)
print("BASELINE_PASSING=%d of %d; missing=%s"%(len(base&ok),len(base),missing[:5]))
P
git checkout -q -- quantarhei
echo DONE >> $LOG
