#!/venv/bin/python
"""Regenerate the kill matrix in DESIGN.md (between the KILLMATRIX markers) from sensitivity.json."""
import json
import os
import re

HERE = os.path.dirname(os.path.dirname(os.path.abspath(__file__)))
d = json.load(open(os.path.join(HERE, "sensitivity.json")))
rows = ["| property | change | kind | result | first clause that fired |", "|---|---|---|---|---|"]
tot = {"killed": 0, "equivalent": 0, "other": 0}
for pid in sorted(d):
    for name in sorted(d[pid]):
        r = d[pid][name]
        kind, nm = name.split(":", 1)
        what = r.get("what") or ""
        if kind == "seeded":
            mf = os.path.join(HERE, "seeded", pid, nm, "meta.json")
            if os.path.exists(mf):
                m = json.load(open(mf))
                what = m.get("needs") or m.get("what") or what
                if m.get("superseded"):
                    what = "(superseded by a later repair of /repo: no longer breaks the property) " + what
        clause = ""
        if r.get("violations"):
            m = re.match(r"violated: (\S+)", r["violations"][0])
            clause = m.group(1) if m else ""
        st = r["status"]
        if r.get("seeds") and st == "killed":
            st = "killed (seeds %s)" % ",".join(str(x) for x in r["seeds"])
        tot["killed" if st.startswith("killed (") or st == "killed" else ("equivalent" if st == "equivalent" else "other")] += 1
        what = (what or "").replace("|", "/").replace("\n", " ")
        if len(what) > 110:
            what = what[:107] + "..."
        rows.append("| %s | %s%s | %s | %s | `%s` |" % (pid, nm, (": " + what) if what else "", kind, st, clause))
rows.append("")
rows.append("%d changes: %d killed by the quick tier at every seed tried, %d equivalent (see its description), %d not killed at every seed." % (sum(tot.values()), tot["killed"], tot["equivalent"], tot["other"]))
txt = "\n".join(rows)
p = os.path.join(HERE, "DESIGN.md")
s = open(p).read()
a, b = "<!-- KILLMATRIX-BEGIN -->", "<!-- KILLMATRIX-END -->"
if a in s:
    s = s[:s.index(a) + len(a)] + "\n" + txt + "\n" + s[s.index(b):]
    open(p, "w").write(s)
    print("DESIGN.md updated:", tot)
else:
    print(txt)
