#!/bin/sh
# tools/trypatch.sh <ID> <patch> [seed]   run the quick check of <ID> against a scratch copy of /repo/quantarhei with <patch> applied
ID=$1; P=$2; S=${3:-1}
T=$(mktemp -d /tmp/qv-try-XXXXXX)
cp -r /repo/quantarhei $T/ && (cd $T && patch -p1 -s -i $P) || { echo PATCH-FAILED; rm -rf $T; exit 2; }
cd "$(dirname "$0")/.."
before=$(ls replays 2>/dev/null | sort)
VERIF_REPO=$T VERIF_SEED=$S ./check $ID --no-evidence 2>&1 | grep -v "^KNOWN-FINDING" | cut -c1-330 | tail -8
for f in $(ls replays 2>/dev/null | sort); do echo "$before" | grep -q "^$f$" || rm -f replays/$f; done
rm -rf $T
