#!/bin/sh
# Offline setup: make sure /venv can import hypothesis (wheelhouse only) and that
# quantarhei's per-user configuration exists before parallel workers start.
set -e
cd "$(dirname "$0")/.."
PY=${VERIF_PYTHON:-/venv/bin/python}
if ! $PY -c "import hypothesis" 2>/dev/null; then
    /venv/bin/pip install --no-index --find-links /opt/veriftools/wheels hypothesis
fi
$PY -W ignore -c "
import sys, os
sys.path.insert(0, os.environ.get('VERIF_REPO', '/repo'))
import hypothesis, numpy, scipy, dill
import quantarhei
print('setup ok: hypothesis', hypothesis.__version__, 'numpy', numpy.__version__, 'quantarhei', quantarhei.__file__)
"
mkdir -p replays evidence
