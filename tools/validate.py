#!/usr/bin/env python3
"""Validates MANIFEST.json and evidence/*.json against the harness schemas (run with python3-vt)."""
import json, glob, sys, os
import jsonschema
HERE = os.path.dirname(os.path.dirname(os.path.abspath(__file__)))
bad = 0
def check(path, schema):
    global bad
    try:
        jsonschema.validate(json.load(open(path)), json.load(open(schema)))
        print("ok   ", path)
    except Exception as e:
        bad += 1
        print("FAIL ", path, str(e)[:300])
check(HERE + "/MANIFEST.json", "/root/.vp/MANIFEST.schema.json")
for f in sorted(glob.glob(HERE + "/evidence/*.json")):
    check(f, "/root/.vp/EVIDENCE.schema.json")
sys.exit(1 if bad else 0)
