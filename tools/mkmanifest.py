#!/venv/bin/python
"""Regenerates /verif/MANIFEST.json from the table below (keeps it valid at all times)."""
import json
import os
import sys

HERE = os.path.dirname(os.path.dirname(os.path.abspath(__file__)))

# id -> (technique, level text, level note, DESIGN section)
def load_checks():
    import importlib, glob
    sys.path.insert(0, HERE)
    out = {}
    for f in sorted(glob.glob(os.path.join(HERE, "qv", "checks", "c[0-9][0-9].py"))):
        mod = importlib.import_module("qv.checks." + os.path.basename(f)[:-3])
        out[mod.ID] = (mod.TECHNIQUE, mod.LEVEL, mod.NOTE, "DESIGN.md section 3 " + mod.ID)
    return out


CHECKS = load_checks()

PENDING_REASON = "not claimed yet: the generated check for this property is still under construction (see DESIGN.md section 3)"


def main():
    props = [json.loads(l) for l in open(os.path.join(HERE, "properties.jsonl"))]
    checks = []
    na = []
    for p in props:
        pid = p["id"]
        if pid in CHECKS:
            tech, text, note, ref = CHECKS[pid]
            checks.append({
                "property_id": pid,
                "quick_cmd": "./check %s --tier quick" % pid,
                "thorough_cmd": "./check %s --tier thorough" % pid,
                "evidence_file": "/verif/evidence/%s.json" % pid,
                "replay_cmd_template": "./check %s --replay {path}" % pid,
                "engine": "qv",
                "level_claimed": {"category": "exploration", "text": text, "design_ref": ref},
                "level_note": note,
                "technique": tech,
            })
        else:
            na.append({"property_id": pid, "reason": PENDING_REASON})
    man = {
        "version": 1,
        "setup_cmd": "sh tools/setup.sh",
        "hooks": {
            "guard": "QUANTARHEI_VERIF",
            "enable": "no hooks or instrumentation are used: every observable named by the properties is public state; "
                      "checks import quantarhei from /repo's working tree (VERIF_REPO overrides the path)",
            "baseline_off_cmd": "cd /repo && /venv/bin/python -m pytest -ra -q -p no:cacheprovider --timeout=900 "
                                "--continue-on-collection-errors",
            "source_commits": [],
            "add_only": True,
        },
        "engines": [{
            "name": "qv",
            "path": "/verif/qv",
            "serves_properties": sorted(CHECKS),
            "kind_free_text": "Hypothesis-driven generated-input search (plus complete enumeration of finite "
                              "sub-grids) against independent oracles; python -m qv.run <ID> --tier quick|thorough "
                              "[--replay F]; VERIF_SEED seeds every run; exit 0/1/2",
        }],
        "checks": checks,
        "notes": "Known findings and fixed defects: /verif/known_findings.json. Shrunk failing cases kept as a "
                 "seconds-long replay tier: /verif/regressions/<ID>/*.json (replayed first by every run). "
                 "Seeded mutants from independent sub-agents: /verif/seeded/. fix: commits in /repo are unguarded "
                 "repairs of genuine defects, listed in known_findings.json.",
        "not_applicable": na,
    }
    with open(os.path.join(HERE, "MANIFEST.json"), "w") as f:
        json.dump(man, f, indent=1)
    print("MANIFEST.json: %d checks, %d not claimed" % (len(checks), len(na)))


if __name__ == "__main__":
    main()
