#!/venv/bin/python
"""tools/seed_import.py <ID> <name> <worktree> <X> <needs...>
Copies a confirmed seeded change (mut<X>.diff, demo_<X>.py, confirm_<X>.log) into /verif/seeded/<ID>/<name>/."""
import sys, os, shutil, json, re
HERE = os.path.dirname(os.path.dirname(os.path.abspath(__file__)))
pid, name, wt, x = sys.argv[1:5]
needs = " ".join(sys.argv[5:])
log = open(os.path.join(wt, "confirm_%s.log" % x)).read()
m1 = re.search(r"DEMO_CLEAN_EXIT=(\d+)", log); m2 = re.search(r"DEMO_MUTATED_EXIT=(\d+)", log)
m3 = re.search(r"BASELINE_PASSING=(\d+) of (\d+)", log)
ok = m1 and m2 and m3 and m1.group(1) == "0" and m2.group(1) != "0" and m3.group(1) == m3.group(2)
print("clean exit", m1 and m1.group(1), "mutated exit", m2 and m2.group(1), "suite", m3 and m3.group(0))
if not ok:
    print("NOT CONFIRMED - not imported"); sys.exit(1)
d = os.path.join(HERE, "seeded", pid, name)
os.makedirs(d, exist_ok=True)
shutil.copy(os.path.join(wt, "mut%s.diff" % x), os.path.join(d, "patch.diff"))
shutil.copy(os.path.join(wt, "demo_%s.py" % x), os.path.join(d, "demo.py"))
json.dump({"property": pid, "name": name, "needs": needs,
           "confirmed": {"demo_on_clean_tree_exit": 0, "demo_on_changed_tree_exit": int(m2.group(1)),
                         "suite": m3.group(0),
                         "how": "tools/confirm_seed.sh in a scratch worktree of /repo: demo on clean tree, git apply, demo, "
                                "full pinned pytest command (PY_IGNORE_IMPORTMISMATCH=1 so that the worktree's tests are "
                                "collected), junit compared with BASELINE.json stable_pass, checkout"},
           "origin": "independent sub-agent given only the property text"}, open(os.path.join(d, "meta.json"), "w"), indent=1)
print("imported", d)
