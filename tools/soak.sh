#!/bin/sh
# tools/soak.sh <tier> <seed>...     run every check at the listed VERIF_SEED values (8 in parallel), report anything that is
# not a quiet exit 0.  Not a registered check: a false-alarm hunt on the unchanged tree.
TIER=$1; shift
cd "$(dirname "$0")/.."
sh tools/setup.sh >/dev/null 2>&1
OUT=${SOAK_OUT:-soak-out}
mkdir -p $OUT
for s in "$@"; do for id in C01 C02 C03 C04 C05 C06 C07 C08 C09 C10 C11 C12 C13 C14 C15 C16 C17 C18 C19 C20; do echo "$s $id"; done; done | \
  xargs -P ${SOAK_JOBS:-8} -L 1 sh -c 'VERIF_SEED=$0 ./check $1 --tier '$TIER' --no-evidence > '$OUT'/$1-$0.log 2>&1; echo "$1 seed=$0 exit=$?"' | tee $OUT/summary.txt | grep -v "exit=0"
echo "soak finished: $(grep -c "exit=0" $OUT/summary.txt) quiet, $(grep -vc "exit=0" $OUT/summary.txt) not quiet"
grep -h "violated:\|HARNESS" $OUT/*.log | sort | uniq -c | sort -rn | head -40
