"""CLI:  python -m qv.run <ID> --tier quick|thorough [--replay FILE]

exit 0  property held on everything explored (KNOWN-FINDING lines allowed)
exit 1  at least one line "VIOLATION property=<ID> replay=<path>"
exit 2  harness error (never reported as a violation)
"""
import os
import sys
import json
import time
import argparse
import importlib
import subprocess
import tempfile
import traceback

from . import core

MAX_SIGNATURES = 5          # distinct root causes reported per shard
MAX_FAILING_GRID_CELLS = 3
SHRINK_BUDGET = {"quick": 40.0, "thorough": 150.0}
NSHARDS = int(os.environ.get("VERIF_SHARDS", "16"))


def load_check(pid):
    return importlib.import_module("qv.checks.%s" % pid.lower())


class Reporter(object):
    """Splits violations of one case into known findings and new ones."""

    def __init__(self, mod, ctx, tier, seed):
        self.mod, self.ctx, self.tier, self.seed = mod, ctx, tier, seed
        self.known = core.load_known(mod.ID)
        self.reported = []          # (signature, path)

    def split(self, vs, count=True):
        new = []
        for v in vs:
            e = core.match_known(v, self.known)
            if e is not None:
                if count:
                    self.ctx.known_hits[e["id"]] += 1
            else:
                new.append(v)
        return new

    def report(self, case, vs, path=None):
        if path is None:
            path = core.write_replay(self.mod.ID, case, vs, self.seed, self.tier)
        self.reported.append((vs[0].signature, path, vs[0].as_dict()))


def hypothesis_round(mod, tier, seed, ctx, rep, excluded, n_examples, t_end):
    """One Hypothesis search.  Returns (case, violations) of the shrunk
    failure or None."""
    import hypothesis
    from hypothesis import given, settings, HealthCheck, Phase, Verbosity

    state = {"last": None, "t_fail": None, "seen": getattr(ctx, "_seen", set()), "failing": {}}
    ctx._seen = state["seen"]

    def body(case):
        sig = decide(case)
        if sig is not None:
            raise core.Found(sig)       # the only raise site: Hypothesis keys failures by their origin

    def decide(case):
        now = time.time()
        h = core.case_hash(case)
        if state["last"] is None:
            if now > t_end:
                ctx.extra["budget_exhausted"] = True
                return None
        else:
            # shrinking: bounded by our own budget (Hypothesis' cap is 5 min).  Cases already known to fail keep
            # failing (so that the final replay of the minimal example is consistent); once the budget is used up
            # new candidates are not evaluated any more.
            if h in state["failing"]:
                state["last"] = state["failing"][h]
                return state["last"][1][0].signature
            if now - state["t_fail"] > SHRINK_BUDGET[tier]:
                return None
        ctx.counting = state["last"] is None and h not in state["seen"]
        state["seen"].add(h)
        vs = core.evaluate(mod, case, ctx)
        ctx.counting = True
        new = [v for v in rep.split(vs, count=state["last"] is None) if v.signature not in excluded]
        if new:
            if state["last"] is None:
                state["t_fail"] = time.time()
            state["last"] = (case, new)
            state["failing"][h] = (case, new)
            return new[0].signature
        return None

    test = given(mod.strategy(tier))(body)
    test = settings(max_examples=n_examples, database=None, deadline=None,
                    report_multiple_bugs=False, derandomize=False,
                    suppress_health_check=[HealthCheck.too_slow, HealthCheck.data_too_large,
                                           HealthCheck.large_base_example],
                    phases=[Phase.generate, Phase.shrink],
                    verbosity=Verbosity.quiet)(test)
    test = hypothesis.seed(seed)(test)
    try:
        test()
    except core.Found:
        return state["last"]
    return None


def run_shard(mod, tier, seed, shard, nshards, ctx, rep, n_examples=None, seconds=None):
    budget = mod.BUDGET[tier]
    n_examples = n_examples or budget[0]
    seconds = seconds or budget[1]
    t0 = time.time()
    # enumerated sub-grid (coarse cases, evaluated through check_case like any other)
    grid = getattr(mod, "grid", None)
    if grid is not None:
        failing_cells = 0
        for i, case in enumerate(grid(tier)):
            if i % nshards != shard:
                continue
            if failing_cells >= MAX_FAILING_GRID_CELLS:
                # a broken library can make the remaining (larger) cells arbitrarily expensive; the verdict is already
                # "violated", the rest of the grid adds nothing
                ctx.label("grid:cut-short-after-%d-failing-cells" % MAX_FAILING_GRID_CELLS)
                break
            vs = core.evaluate(mod, case, ctx)
            ctx.grid_cases += 1
            new = rep.split(vs)
            if new:
                failing_cells += 1
            if new:
                sigs = set(s for s, _, _ in rep.reported)
                if new[0].signature not in sigs and len(sigs) < MAX_SIGNATURES:
                    rep.report(case, new)
    if n_examples <= 0:
        return
    excluded = set(s for s, _, _ in rep.reported)
    hseed = seed * 1000 + shard
    for _ in range(MAX_SIGNATURES):
        r = hypothesis_round(mod, tier, hseed, ctx, rep, excluded, n_examples, t0 + seconds)
        if r is None:
            break
        case, vs = r
        rep.report(case, vs)
        excluded.add(vs[0].signature)


def main(argv=None):
    ap = argparse.ArgumentParser()
    ap.add_argument("pid")
    ap.add_argument("--tier", default=os.environ.get("VERIF_TIER", "quick"), choices=["quick", "thorough"])
    ap.add_argument("--replay")
    ap.add_argument("--shard", type=int)
    ap.add_argument("--nshards", type=int, default=1)
    ap.add_argument("--shard-out")
    ap.add_argument("--examples", type=int)
    ap.add_argument("--seconds", type=float)
    ap.add_argument("--no-evidence", action="store_true")
    a = ap.parse_args(argv)
    t0 = time.time()
    seed = core.SEED
    try:
        core.setup_repo()
        mod = load_check(a.pid)
        ctx = core.Ctx(mod.ID, a.tier)
        rep = Reporter(mod, ctx, a.tier, seed)

        if a.replay:
            data = core.load_replay(a.replay)
            vs = core.evaluate(mod, data["case"], ctx)
            new = rep.split(vs)
            for v in vs:
                print(("NEW   " if v in new else "KNOWN ") + repr(v))
            if new:
                print("VIOLATION property=%s replay=%s" % (mod.ID, a.replay))
                return 1
            print("replay: property %s held on this case" % mod.ID)
            return 0

        if a.shard is not None:
            run_shard(mod, a.tier, seed, a.shard, a.nshards, ctx, rep, a.examples, a.seconds)
            with open(a.shard_out, "w") as f:
                json.dump({"ctx": json.loads(core.canonical(ctx.dump())), "reported": rep.reported}, f)
            return 0

        # 1. regression tier: shrunk cases of every confirmed failure
        nreg = 0
        for path in core.regression_files(mod.ID):
            data = core.load_replay(path)
            vs = core.evaluate(mod, data["case"], ctx)
            nreg += 1
            new = rep.split(vs)
            if new:
                rep.report(data["case"], new, path=path)
        info = {"regressions_replayed": nreg}

        # 2. generated search
        if a.tier == "quick" or NSHARDS <= 1:
            run_shard(mod, a.tier, seed, 0, 1, ctx, rep, a.examples, a.seconds)
            info["shards"] = 1
        else:
            tmpd = tempfile.mkdtemp(prefix="qv-shards-")
            procs = []
            try:
                for k in range(NSHARDS):
                    out = os.path.join(tmpd, "shard%d.json" % k)
                    cmd = [sys.executable, "-m", "qv.run", mod.ID, "--tier", a.tier,
                           "--shard", str(k), "--nshards", str(NSHARDS), "--shard-out", out]
                    if a.examples:
                        cmd += ["--examples", str(a.examples)]
                    if a.seconds:
                        cmd += ["--seconds", str(a.seconds)]
                    procs.append((k, out, subprocess.Popen(cmd, cwd=core.VERIF_DIR,
                                                           stdout=subprocess.PIPE, stderr=subprocess.STDOUT)))
                for k, out, p in procs:
                    txt, _ = p.communicate()
                    if p.returncode != 0 or not os.path.exists(out):
                        sys.stdout.write(txt.decode(errors="replace")[-4000:])
                        raise core.HarnessError("shard %d failed with exit %s" % (k, p.returncode))
                    with open(out) as f:
                        d = json.load(f)
                    ctx.merge(d["ctx"])
                    have = set(s for s, _, _ in rep.reported)
                    for s, path, vd in d["reported"]:
                        if s not in have:
                            rep.reported.append((s, path, vd))
                            have.add(s)
            finally:
                for _, _, p in procs:
                    if p.poll() is None:
                        p.kill()
                for n in os.listdir(tmpd):
                    os.remove(os.path.join(tmpd, n))
                os.rmdir(tmpd)
            info["shards"] = NSHARDS

        wall = time.time() - t0
        info["reported_signatures"] = [s for s, _, _ in rep.reported]
        if not a.no_evidence:
            core.write_evidence(mod, ctx, a.tier, seed, wall, len(rep.reported), info)
        for e in rep.known:
            if e.get("status") == "open":
                print("KNOWN-FINDING: property=%s %s [%s; reproduced %d times in this run]"
                      % (mod.ID, e["what"], e["id"], ctx.known_hits.get(e["id"], 0)))
        for s, path, vd in rep.reported:
            print("  violated: %s %s" % (s, json.dumps(vd["detail"])[:400]))
            print("VIOLATION property=%s replay=%s" % (mod.ID, path))
        print("%s %s seed=%d: %d cases (%d distinct non-trivial, %d from the deterministic grid, %d enumerated cells), "
              "%d regressions, %d violation(s), %.1f s" % (mod.ID, a.tier, seed, ctx.evaluations, len(ctx.nontrivial),
                                                           ctx.grid_cases, ctx.exhaustive_cells, nreg, len(rep.reported), wall))
        return 1 if rep.reported else 0
    except Exception as e:  # harness error, never a violation
        traceback.print_exc()
        print("HARNESS-ERROR: %s: %s" % (type(e).__name__, str(e)[:500]))
        return 2


if __name__ == "__main__":
    sys.exit(main())
