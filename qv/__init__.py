"""qv - property-based verification machinery for tmancal74/quantarhei."""
import os as _os

# single-threaded BLAS: small matrices only; 16 shards run side by side (must be set before numpy is imported)
for _v in ("OMP_NUM_THREADS", "OPENBLAS_NUM_THREADS", "MKL_NUM_THREADS", "NUMEXPR_NUM_THREADS"):
    _os.environ.setdefault(_v, "1")
