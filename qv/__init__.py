"""qv - property-based verification machinery for tmancal74/quantarhei."""
