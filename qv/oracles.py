"""Independent reference computations (never import quantarhei here)."""
import itertools
import math

import numpy
import scipy.linalg

# ---------------------------------------------------------------------------
# physical constants typed in (SI 2019 exact values / CODATA 2018)
# ---------------------------------------------------------------------------
C_SI = 299792458.0                 # m/s, exact
H_SI = 6.62607015e-34              # J s, exact
HBAR_SI = H_SI / (2.0 * math.pi)
E_SI = 1.602176634e-19             # C, exact
KB_SI = 1.380649e-23               # J/K, exact
EPS0_SI = 8.8541878128e-12         # F/m, CODATA 2018
HARTREE_EV = 27.211386245988       # CODATA 2018
DEBYE_SI = 1.0e-21 / C_SI          # C m  (= 3.33564e-30)

# multiplicative factors unit -> internal (rad/fs)
ENERGY_FACTORS = {
    "int": 1.0,
    "1/fs": 1.0,
    "1/cm": 2.0 * math.pi * C_SI * 1.0e-13,
    "THz": 2.0 * math.pi * 1.0e-3,
    "eV": 1.0e-15 * E_SI / HBAR_SI,
    "meV": 1.0e-18 * E_SI / HBAR_SI,
    "J": 1.0e-15 / HBAR_SI,
    "SI": 1.0e-15 / HBAR_SI,
    "Ha": HARTREE_EV * 1.0e-15 * E_SI / HBAR_SI,
    "a.u.": HARTREE_EV * 1.0e-15 * E_SI / HBAR_SI,
}
MULT_UNITS = sorted(ENERGY_FACTORS)
CM2INT = ENERGY_FACTORS["1/cm"]
KB_INT = KB_SI * ENERGY_FACTORS["J"]          # k_B in (rad/fs)/K

LENGTH_FACTORS = {"int": 1.0, "A": 1.0, "Bohr": 0.52917721067, "a.u.": 0.52917721067, "nm": 10.0,
                  "m": 1.0e10, "SI": 1.0e10}


def to_internal(val, unit):
    if unit == "nm":
        return 1.0e7 / numpy.asarray(val, dtype=float) * CM2INT
    return numpy.asarray(val, dtype=float) * ENERGY_FACTORS[unit]


def from_internal(val, unit):
    if unit == "nm":
        return 1.0e7 / (numpy.asarray(val, dtype=float) / CM2INT)
    return numpy.asarray(val, dtype=float) / ENERGY_FACTORS[unit]


def convert(val, u1, u2):
    return from_internal(to_internal(val, u1), u2)


# ---------------------------------------------------------------------------
# Frenkel exciton model built from scratch
# ---------------------------------------------------------------------------

def frenkel_signatures(n, mult):
    """All 0/1 occupation tuples with at most `mult` excitations, by band."""
    out = []
    for b in range(mult + 1):
        for comb in itertools.combinations(range(n), b):
            out.append(tuple(1 if i in comb else 0 for i in range(n)))
    return out


def frenkel_element(sa, sb, energies, J):
    """Hamiltonian element between two occupation signatures."""
    if sa == sb:
        return float(sum(e for e, o in zip(energies, sa) if o))
    if sum(sa) != sum(sb):
        return 0.0
    diff = [i for i in range(len(sa)) if sa[i] != sb[i]]
    if len(diff) == 2:
        i, j = diff
        return float(J[i][j])
    return 0.0


def frenkel_dipole(sa, sb, dip):
    """Transition dipole between two signatures (adjacent bands, one site changes)."""
    if abs(sum(sa) - sum(sb)) != 1:
        return numpy.zeros(3)
    diff = [i for i in range(len(sa)) if sa[i] != sb[i]]
    if len(diff) == 1:
        return numpy.array(dip[diff[0]], dtype=float)
    return numpy.zeros(3)


def frenkel_matrices(sigs, energies, J, dip):
    n = len(sigs)
    H = numpy.zeros((n, n))
    D = numpy.zeros((n, n, 3))
    for a in range(n):
        for b in range(n):
            H[a, b] = frenkel_element(sigs[a], sigs[b], energies, J)
            D[a, b, :] = frenkel_dipole(sigs[a], sigs[b], dip)
    return H, D


def point_dipole_coupling_int(r1, r2, d1, d2, epsr):
    """(d1.d2 - 3 (d1.n)(d2.n)) / (4 pi eps0 eps_r R^3), Debye and Angstrom in,
    internal energy units (rad/fs) out, via SI."""
    r1, r2 = numpy.asarray(r1, float) * 1e-10, numpy.asarray(r2, float) * 1e-10
    d1, d2 = numpy.asarray(d1, float) * DEBYE_SI, numpy.asarray(d2, float) * DEBYE_SI
    R = r1 - r2
    RR = math.sqrt(float(numpy.dot(R, R)))
    n = R / RR
    v_joule = (numpy.dot(d1, d2) - 3.0 * numpy.dot(d1, n) * numpy.dot(d2, n)) / (
        4.0 * math.pi * EPS0_SI * epsr * RR ** 3)
    return float(v_joule) * ENERGY_FACTORS["J"]


# ---------------------------------------------------------------------------
# Liouville-space references
# ---------------------------------------------------------------------------

def liouvillian_unitary(H):
    """-i[H, .] as a matrix acting on row-major vec(rho)."""
    n = H.shape[0]
    I = numpy.eye(n)
    return -1j * (numpy.kron(H, I) - numpy.kron(I, H.T))


def liouvillian_lindblad(H, ops, rates):
    """GKSL generator for real or complex jump operators K_k with rates g_k:
    d rho/dt = -i[H,rho] + sum g (K rho K+ - 1/2 {K+K, rho}); row-major vec."""
    n = H.shape[0]
    I = numpy.eye(n)
    L = liouvillian_unitary(H).astype(complex)
    for K, g in zip(ops, rates):
        K = numpy.asarray(K, dtype=complex)
        KdK = K.conj().T @ K
        L = L + g * (numpy.kron(K, K.conj()) - 0.5 * numpy.kron(KdK, I) - 0.5 * numpy.kron(I, KdK.T))
    return L


def taylor_map(L, dt, order):
    """sum_{l<=order} (L dt)^l / l!"""
    n = L.shape[0]
    T = numpy.eye(n, dtype=complex)
    term = numpy.eye(n, dtype=complex)
    for l in range(1, order + 1):
        term = term @ (L * dt) / l
        T = T + term
    return T


def truncation_profile(L, dt, order, vec0, nsteps):
    """Exact states E^n v, Taylor states T^n v and tau = max_n ||T^n v - E^n v||_2."""
    E = scipy.linalg.expm(L * dt)
    T = taylor_map(L, dt, order)
    ve = numpy.asarray(vec0, dtype=complex).copy()
    vt = ve.copy()
    exact = [ve.copy()]
    tau = 0.0
    for _ in range(nsteps):
        ve = E @ ve
        vt = T @ vt
        exact.append(ve.copy())
        tau = max(tau, float(numpy.linalg.norm(ve - vt)))
    return numpy.array(exact), tau


# ---------------------------------------------------------------------------
# bath: overdamped Brownian oscillator, closed forms
# ---------------------------------------------------------------------------

def ob_spectral_density(w, lam, tau_c):
    """J(w) = 2 lam w gamma / (w^2 + gamma^2), gamma = 1/tau_c (internal units)."""
    g = 1.0 / tau_c
    return 2.0 * lam * w * g / (w * w + g * g)


def ob_exponentials(lam, tau_c, temp_K, nmats):
    """C(t) = sum_k c_k exp(-nu_k t) for t >= 0 (Matsubara expansion).
    Returns list of (c_k, nu_k)."""
    g = 1.0 / tau_c
    kT = KB_INT * temp_K
    out = [(lam * g * (1.0 / math.tan(g / (2.0 * kT)) - 1j), g)]
    for k in range(1, nmats + 1):
        nu = 2.0 * math.pi * kT * k
        out.append((4.0 * lam * g * kT * nu / (nu * nu - g * g), nu))
    return out


def lineshape_g(t, exps):
    """g(t) = sum c/nu^2 (exp(-nu t) + nu t - 1)."""
    t = numpy.asarray(t, dtype=float)
    g = numpy.zeros(t.shape, dtype=complex)
    for c, nu in exps:
        g = g + (c / nu ** 2) * (numpy.exp(-nu * t) + nu * t - 1.0)
    return g


def ht_exponentials(lam, tau_c, temp_K):
    """High-temperature OB: C(t) = (2 lam kT - i lam gamma) exp(-gamma t)."""
    g = 1.0 / tau_c
    kT = KB_INT * temp_K
    return [(2.0 * lam * kT - 1j * lam * g, g)]


def softmax_neg(energies_over_kT):
    """Boltzmann weights exp(-x)/sum exp(-x), computed in the log domain."""
    x = numpy.asarray(energies_over_kT, dtype=float)
    m = numpy.min(x)
    w = numpy.exp(-(x - m))
    return w / numpy.sum(w)
