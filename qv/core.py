"""Shared machinery: seeding, case evaluation, statistics, known findings,
replay files, evidence.  See DESIGN.md section 1.

A *check module* (qv/checks/cNN.py) provides

    ID            "C01"
    RULE          text: how cases are generated and what makes one non-trivial
    ASSUMPTIONS   list of strings
    BUDGET        {"quick": (max_examples, seconds), "thorough": (per-shard examples, seconds)}
    strategy(tier)            -> hypothesis strategy of JSON-serialisable cases
    check_case(case, ctx)     -> None; reports through ctx (ctx.fail / ctx.close / ctx.label ...)
    exhaustive(tier, ctx, shard, nshards)   optional: enumerated sub-grid, reports through ctx

check_case must be a pure function of (case, code under test).
"""
import os
import sys
import io
import json
import time
import hashlib
import fnmatch
import contextlib
import collections
import traceback

import numpy

VERIF_DIR = os.path.dirname(os.path.dirname(os.path.abspath(__file__)))
REPO = os.path.abspath(os.environ.get("VERIF_REPO", "/repo"))
SEED = int(os.environ.get("VERIF_SEED", "1") or "1")


def setup_repo():
    """Make `import quantarhei` resolve to the working tree under test."""
    if REPO not in sys.path or sys.path[0] != REPO:
        sys.path.insert(0, REPO)
    os.environ.setdefault("OMP_NUM_THREADS", "1")
    import warnings
    warnings.simplefilter("ignore")
    with quiet():
        import quantarhei
    here = os.path.abspath(quantarhei.__file__)
    if not here.startswith(REPO + os.sep):
        raise HarnessError("quantarhei imported from %s, not from %s" % (here, REPO))
    return quantarhei


class HarnessError(Exception):
    pass


@contextlib.contextmanager
def quiet():
    """quantarhei prints progress in many places; keep check output clean."""
    buf = io.StringIO()
    with contextlib.redirect_stdout(buf):
        yield buf


def canonical(case):
    return json.dumps(case, sort_keys=True, separators=(",", ":"), default=_jsonable)


def _jsonable(o):
    if isinstance(o, (numpy.integer,)):
        return int(o)
    if isinstance(o, (numpy.floating,)):
        return float(o)
    if isinstance(o, complex):
        return [o.real, o.imag]
    if isinstance(o, numpy.ndarray):
        return o.tolist()
    if isinstance(o, (set, frozenset, tuple)):
        return list(o)
    return repr(o)


def case_hash(case):
    return hashlib.sha1(canonical(case).encode()).hexdigest()[:12]


class Violation(object):
    def __init__(self, prop, clause, where=None, **detail):
        self.prop = prop
        self.clause = clause
        self.where = where or ""
        self.detail = detail

    @property
    def signature(self):
        s = "%s/%s" % (self.prop, self.clause)
        if self.where:
            s += "/" + self.where
        return s

    def as_dict(self):
        return {"signature": self.signature, "detail": json.loads(canonical(self.detail))}

    def __repr__(self):
        return "Violation(%s %s)" % (self.signature, canonical(self.detail)[:300])


class Found(Exception):
    """Raised inside the Hypothesis body when a case violates the property."""


# ---------------------------------------------------------------------------
# known findings
# ---------------------------------------------------------------------------

def load_known(prop):
    path = os.path.join(VERIF_DIR, "known_findings.json")
    if not os.path.exists(path):
        return []
    with open(path) as f:
        data = json.load(f)
    return [e for e in data.get("findings", []) if e.get("property") == prop]


def match_known(v, entries):
    """Return the *open* entry that covers violation v, or None.

    An entry covers v when its signature glob matches v.signature and every
    key of its optional "where" dict equals the same key of v.detail.
    Entries with status "fixed" never match."""
    for e in entries:
        if e.get("status") != "open":
            continue
        if not fnmatch.fnmatchcase(v.signature, e["signature"]):
            continue
        ok = True
        for k, val in (e.get("where") or {}).items():
            if v.detail.get(k) != val:
                ok = False
                break
        if ok:
            return e
    return None


# ---------------------------------------------------------------------------
# per-run context
# ---------------------------------------------------------------------------

class Ctx(object):
    """Collects what a run covered and what it found."""

    def __init__(self, prop, tier):
        self.prop = prop
        self.tier = tier
        self.evaluations = 0
        self.nontrivial = set()
        self.labels = collections.Counter()
        self.resid = {}            # clause -> [max ratio value/tol, value, tol, count]
        self.samples = []
        self.later = []            # reservoir of evenly spaced later samples
        self.known_hits = collections.Counter()
        self.counting = True
        self.extra = {}
        self.exhaustive_cells = 0
        self.grid_cases = 0        # cases of the check's deterministic grid(tier) evaluated in this run
        # per-case
        self._violations = []
        self._nontrivial = False

    # -- per case ---------------------------------------------------------
    def begin(self):
        self._violations = []
        self._nontrivial = False
        self._labels = []

    def fail(self, clause, where=None, **detail):
        self._violations.append(Violation(self.prop, clause, where, **detail))

    def label(self, *names):
        self._labels.extend(str(n) for n in names)

    def mark_nontrivial(self, flag=True):
        if flag:
            self._nontrivial = True

    def close(self, clause, got, want, rtol=1e-9, atol=1e-13, scale=None, where=None, **detail):
        """Assert got == want within rtol*scale+atol; records the residual.
        Returns True when it held."""
        got = numpy.asarray(got)
        want = numpy.asarray(want)
        if got.shape != want.shape:
            self.fail(clause, where, reason="shape", got=list(got.shape), want=list(want.shape), **detail)
            return False
        if got.size == 0:
            return True
        if scale is None:
            with numpy.errstate(all="ignore"):
                scale = float(numpy.max(numpy.abs(want)))
                if not numpy.isfinite(scale):
                    scale = 1.0
        with numpy.errstate(all="ignore"):
            d = numpy.abs(got - want)
            m = float(numpy.max(d)) if numpy.all(numpy.isfinite(d)) else float("nan")
        tol = rtol * scale + atol
        return self.bound(clause, m, tol, where=where, **detail)

    def bound(self, clause, value, tol, where=None, **detail):
        """Assert value <= tol (NaN fails); records value/tol."""
        value = float(value)
        tol = float(tol)
        ok = value <= tol
        key = clause
        r = self.resid.get(key)
        ratio = value / tol if tol > 0 and numpy.isfinite(value) else (0.0 if ok else float("inf"))
        if self.counting:
            if r is None:
                self.resid[key] = [ratio if ok else 0.0, value if ok else 0.0, tol, 1]
            else:
                r[3] += 1
                if ok and ratio > r[0]:
                    r[0], r[1], r[2] = ratio, value, tol
        if not ok:
            self.fail(clause, where, value=value, tol=tol, **detail)
        return ok

    def end(self, case):
        vs = self._violations
        if self.counting:
            self.evaluations += 1
            for l in self._labels:
                self.labels[l] += 1
            if self._nontrivial:
                self.nontrivial.add(case_hash(case))
            if len(self.samples) < 3:
                self.samples.append(case)
            elif self.evaluations % 37 == 0 and len(self.later) < 40:
                self.later.append(case)
        return vs

    # -- merging (thorough shards) -----------------------------------------
    def dump(self):
        return {"evaluations": self.evaluations, "nontrivial": sorted(self.nontrivial),
                "labels": dict(self.labels), "resid": self.resid,
                "samples": self.samples, "later": self.later,
                "known_hits": dict(self.known_hits), "extra": self.extra,
                "exhaustive_cells": self.exhaustive_cells, "grid_cases": self.grid_cases}

    def merge(self, d):
        self.evaluations += d["evaluations"]
        self.nontrivial.update(d["nontrivial"])
        self.labels.update(d["labels"])
        for k, r in d["resid"].items():
            mine = self.resid.get(k)
            if mine is None:
                self.resid[k] = list(r)
            else:
                mine[3] += r[3]
                if r[0] > mine[0]:
                    mine[0], mine[1], mine[2] = r[0], r[1], r[2]
        for s in d["samples"]:
            if len(self.samples) < 3:
                self.samples.append(s)
        self.later.extend(d["later"][:3])
        self.known_hits.update(d["known_hits"])
        self.exhaustive_cells += d.get("exhaustive_cells", 0)
        self.grid_cases += d.get("grid_cases", 0)
        for k, v in d.get("extra", {}).items():
            if isinstance(v, (int, float)) and isinstance(self.extra.get(k), (int, float)):
                self.extra[k] += v
            else:
                self.extra.setdefault(k, v)


DEFAULT_UNITS = {"energy": "1/fs", "frequency": "1/fs", "dipolemoment": "Debye",
                 "temperature": "Kelvin", "length": "A"}


def reset_globals():
    """State of the code under test that outlives a call (Manager singleton):
    reset at the top of every case so that a leak in one case cannot change
    the verdict of the next (leaks themselves are what C04/C05 look for,
    inside one case)."""
    from quantarhei import Manager
    m = Manager()
    m.current_units = dict(DEFAULT_UNITS)
    m._saved_units = {}
    m._in_energy_units_context = False
    m._in_eu_count = 0
    m._in_eigenbasis_of_context = False
    m._in_eb_count = 0
    m.basis_stack = [0]
    m.basis_transformations = [1]
    m.basis_registered = {}
    m.current_basis_operator = None


def evaluate(mod, case, ctx):
    """Run check_case on one case; return the list of violations.
    Exceptions escaping check_case are harness errors (the check modules
    convert exceptions raised by the code under test into violations
    themselves, clause by clause)."""
    ctx.begin()
    reset_globals()
    with quiet():
        mod.check_case(case, ctx)
    return ctx.end(case)


def guarded(ctx, clause, fn, where=None, **detail):
    """Call fn(); an exception from the code under test where the property
    says a value is returned is a violation of `clause`.  Returns
    (ok, value)."""
    try:
        return True, fn()
    except HarnessError:
        raise
    except Exception as e:  # noqa - contract: returns a value
        tb = traceback.extract_tb(e.__traceback__)
        site = ""
        for fr in reversed(tb):
            if os.path.abspath(fr.filename).startswith(REPO + os.sep):
                site = "%s:%s" % (os.path.basename(fr.filename), fr.name)
                break
        if not site:
            # no frame of the code under test in the traceback: the harness itself is at fault
            raise HarnessError("%s in harness code while checking %s: %s" % (type(e).__name__, clause, e))
        ctx.fail(clause + "/raises", where, exc=type(e).__name__, msg=str(e)[:200], site=site, **detail)
        return False, None


# ---------------------------------------------------------------------------
# replay files
# ---------------------------------------------------------------------------

def write_replay(prop, case, violations, seed, tier):
    d = os.path.join(VERIF_DIR, "replays")
    os.makedirs(d, exist_ok=True)
    h = hashlib.sha1((canonical(case) + violations[0].signature).encode()).hexdigest()[:10]
    path = os.path.join(d, "%s-%s.json" % (prop, h))
    with open(path, "w") as f:
        json.dump({"property": prop, "signature": violations[0].signature,
                   "violations": [v.as_dict() for v in violations],
                   "seed": seed, "tier": tier,
                   "case": json.loads(canonical(case))}, f, indent=1, sort_keys=True)
    return path


def load_replay(path):
    with open(path) as f:
        return json.load(f)


def regression_files(prop):
    d = os.path.join(VERIF_DIR, "regressions", prop)
    if not os.path.isdir(d):
        return []
    return [os.path.join(d, n) for n in sorted(os.listdir(d)) if n.endswith(".json")]


# ---------------------------------------------------------------------------
# evidence
# ---------------------------------------------------------------------------

def write_evidence(mod, ctx, tier, seed, wall, nviol, info):
    later = ctx.later
    if len(later) > 3:
        step = len(later) // 3
        later = [later[0], later[step], later[2 * step]]
    cov = {
        "evaluations": int(ctx.evaluations + ctx.exhaustive_cells),
        "generated_cases": int(ctx.evaluations),
        "exhaustive_cells": int(ctx.exhaustive_cells),
        "deterministic_grid_cases": int(ctx.grid_cases),
        "distinct_nontrivial": int(len(ctx.nontrivial)),
        "rule": mod.RULE,
        "samples": json.loads(canonical(ctx.samples + later)),
        "labels": dict(sorted(ctx.labels.items())),
        "residuals": {k: {"max_value_over_tol": r[0], "value": r[1], "tol": r[2], "comparisons": r[3]}
                      for k, r in sorted(ctx.resid.items())},
        "known_finding_hits": dict(ctx.known_hits),
        "exhaustive": bool(getattr(mod, "EXHAUSTIVE", False)),
    }
    cov.update(info)
    cov.update(json.loads(canonical(ctx.extra)))
    ev = {"property_id": mod.ID, "tier": tier, "seed": int(seed), "level": "exploration",
          "coverage": cov, "assumptions": list(mod.ASSUMPTIONS), "wall_s": round(wall, 2),
          "violations": int(nviol)}
    d = os.path.join(VERIF_DIR, "evidence")
    os.makedirs(d, exist_ok=True)
    with open(os.path.join(d, "%s.json" % mod.ID), "w") as f:
        json.dump(ev, f, indent=1, sort_keys=True)
