"""C01  Relaxation generators preserve trace and Hermiticity.

Oracle: the two tensor identities themselves, evaluated with einsum on the
raw arrays (and through the action on generated complex operators for
operator-form tensors); secularisation against a second tensor built from
identical inputs without secularisation.
"""
import numpy
from hypothesis import strategies as st

from .. import oracles as orc
from .. import gens
from ..core import guarded

ID = "C01"
TECHNIQUE = ("Hypothesis-generated (system, bath, theory, options, basis) with the two tensor identities evaluated on "
             "every element / time index / basis, and a differential secular-vs-full comparison")
LEVEL = ("(Also: secularize() called explicitly, repeatedly and in different bases; one site up to 3500 1/cm away for Foerster-type theories.) For generated aggregates (2-3 sites quick, up to 4 thorough; per-site overdamped Brownian baths, 50-400 K) "
         "and all theories reachable through get_RelaxationTensor (standard Redfield static/time dependent, operator/"
         "tensor form, cut-off time, secular; Foerster static/time dependent; combined Redfield-Foerster with generated "
         "coupling cut-off, static/time dependent, secular), the direct constructors in the documented pattern, and "
         "Lindblad forms from generated operators and rates: sum_a R[a,a,c,d] = 0 and conj R[a,b,c,d] = R[b,a,d,c] at "
         "every time index, read outside any context, inside eigenbasis_of(H) and inside the eigenbasis of an unrelated "
         "generated operator (1e-9 relative). Operator-form tensors are checked through their action on generated "
         "complex operators and again element-wise after convert_2_tensor(). Secularised tensors are compared inside "
         "eigenbasis_of(H) with an unsecularised twin: kept elements equal, all others exactly zero."
         " Later additions: tensors asked for after an earlier call with other options and recalculate=False; Foerster tensors initialised twice; a deterministic grid of far-detuned Foerster-type tensors. Round five: secular twin comparison also for the time-dependent combined tensor; electronic Lindblad forms of (vibronic) dimers; more deterministic cells (secular variants, histories).")
NOTE = ("dim <= 4 (quick) / 5 (thorough); time-dependent tensors on <= 150 time points. The secular differential clause "
        "is asserted for Redfield and Lindblad tensors (for the combined tensor the secularisation basis - the "
        "Hamiltonian with the cut-off subtracted - is not the basis of the returned Hamiltonian).")
RULE = ("kind system: gens.system_spec + theory stR|stF|cRF + td, secular, as_operators, cut-off time, coupling cut-off, "
        "route opensystem|direct, integer symmetric 'other basis' operator; kind lindblad: dim 2..5, 1..4 real operators "
        "(projectors or dense), rates k/1000, form. Non-trivial: N >= 2 with a non-zero coupling (or a Lindblad operator "
        "that is not diagonal with positive rate) and max|R| > 0.")
ASSUMPTIONS = ["class-1 tolerance: 1e-9*max|R| + 1e-13"]
BUDGET = {"quick": (450, 90), "thorough": (700, 800)}


@st.composite
def _system(draw, big):
    spec = draw(gens.system_spec(nmin=2, nmax=3 if not big else 4, tmin=50, tmax=400, ntmax=150, spread=500, jmax=300,
                                 dipoles=False))
    n = len(spec["E"])
    theory = draw(st.sampled_from(["stR", "stR", "stF", "cRF"]))
    if theory in ("stF", "cRF") and draw(st.sampled_from([False, True])):
        # one site far away in energy: uphill Foerster rates so small that the numerical integration may give them
        # either sign
        k = draw(st.integers(0, n - 1))
        spec["E"][k] = spec["E"][k] + draw(st.sampled_from([-1, 1])) * draw(st.integers(1500, 3500))
    td = draw(st.booleans())
    as_ops = draw(st.booleans()) if theory == "stR" else False
    secular = draw(st.booleans()) if theory != "stF" and not (td and as_ops) else False
    dim = n + 1
    other = [[0] * dim for _ in range(dim)]
    for i in range(dim):
        for j in range(i, dim):
            other[i][j] = other[j][i] = draw(st.integers(-5, 5))
    return {"kind": "system", "spec": spec, "theory": theory, "td": td, "as_ops": as_ops, "secular": secular,
            # secularize() called on the finished tensor, possibly more than once, each time in some basis
            "resecularize": draw(st.lists(st.sampled_from(["site", "eigen", "other"]), max_size=3)),
            # the non-default implementation secularize(legacy=False), called once
            "legacy_false": draw(st.sampled_from([False, False, True])),
            "cutoff_time": draw(st.sampled_from([None, None, 0.3, 0.6])) if theory == "stR" else None,
            "coupling_cutoff": draw(st.sampled_from([None, 0, 5, 40, 120, 400])) if theory == "cRF" else None,
            "route": draw(st.sampled_from(["opensystem", "direct"])) if theory == "stR" else "opensystem",
            # object histories: the aggregate has handed out a tensor of the same theory with other options before and
            # this one is asked for with recalculate=False; the finished (Foerster) tensor is initialised a second time
            "prior_call": draw(st.sampled_from([None, None, "other-options"])),
            "reinitialize": draw(st.sampled_from([False, False, True])),
            "other": other, "A": draw(gens.complex_matrix(dim))}


@st.composite
def _lind(draw):
    dim = draw(st.integers(2, 5))
    H = draw(gens.symmetric_matrix(dim, -300, 300, 0.001, 0, 2500))
    ops, rates = [], []
    for _ in range(draw(st.integers(1, 4))):
        if draw(st.booleans()):
            ops.append({"proj": [draw(st.integers(0, dim - 1)), draw(st.integers(0, dim - 1))]})
        else:
            ops.append({"dense": [[draw(st.integers(-2, 2)) / 2.0 for _ in range(dim)] for _ in range(dim)]})
        rates.append(draw(st.integers(0, 50)))
    other = [[0] * dim for _ in range(dim)]
    for i in range(dim):
        for j in range(i, dim):
            other[i][j] = other[j][i] = draw(st.integers(-5, 5))
    return {"kind": "lindblad", "H": H, "ops": ops, "rates": rates, "form": draw(st.sampled_from(["op", "tensor", "converted"])),
            "secular": draw(st.booleans()), "other": other, "A": draw(gens.complex_matrix(dim))}


def grid(tier):
    """Deterministic Foerster-type tensors with one site far away in energy (uphill rates that the numerical integration
    may leave with either sign), so that this corner is visited at every seed."""
    other = [[((i + 1) * (j + 3)) % 9 - 4 for j in range(4)] for i in range(4)]
    other = [[other[min(i, j)][max(i, j)] for j in range(4)] for i in range(4)]
    A = [[[(2 * i + j) % 5 - 2, (i + 3 * j) % 3 - 1] for j in range(4)] for i in range(4)]
    for gap in (1000, 1500, 2000, 2500, 3000, 3500):
        for sign in (1, -1):
            for T in (77, 300):
                spec = {"E": [12000, 12100 + sign * gap, 12250], "J": [[0, 80, 40], [80, 0, -60], [40, -60, 0]],
                        "d": [[0.0, 0.0, 0.0]] * 3, "T": T,
                        "bath": [{"ftype": "OverdampedBrownian", "reorg": 30 + 20 * i, "cortime": 50 + 10 * i, "matsubara": 10}
                                 for i in range(3)],
                        "time": [0.0, 150, 2.0]}
                for theory, td, cc in (("stF", False, None), ("stF", True, None), ("cRF", False, 100)):
                    yield {"kind": "system", "spec": spec, "theory": theory, "td": td, "as_ops": False, "secular": False,
                           "resecularize": [], "legacy_false": False, "cutoff_time": None, "coupling_cutoff": cc,
                           "route": "opensystem", "prior_call": None, "reinitialize": False, "other": other, "A": A}
    # secular variants of every theory that has one, object histories, on one ordinary trimer
    spec = {"E": [12000, 12180, 12310], "J": [[0, 110, 35], [110, 0, -75], [35, -75, 0]],
            "d": [[0.0, 0.0, 0.0]] * 3, "T": 200,
            "bath": [{"ftype": "OverdampedBrownian", "reorg": 35 + 15 * i, "cortime": 45 + 10 * i, "matsubara": 10}
                     for i in range(3)],
            "time": [0.0, 100, 2.0]}
    base = {"kind": "system", "spec": spec, "as_ops": False, "resecularize": [], "legacy_false": False, "cutoff_time": None,
            "coupling_cutoff": None, "route": "opensystem", "prior_call": None, "reinitialize": False, "other": other, "A": A}
    for theory, td in (("stR", False), ("stR", True), ("cRF", False), ("cRF", True)):
        yield dict(base, theory=theory, td=td, secular=True)
        yield dict(base, theory=theory, td=td, secular=True, prior_call="other-options")
    yield dict(base, theory="stF", td=False, secular=False, reinitialize=True)
    yield dict(base, theory="stF", td=False, secular=False, prior_call="other-options")
    yield dict(base, theory="stR", td=False, secular=False, as_ops=True, resecularize=["eigen", "site", "other"])
    yield dict(base, theory="stR", td=False, secular=False, resecularize=["other"], legacy_false=True)


@st.composite
def _elf(draw):
    """electronic Lindblad form of a dimer, with or without vibrational modes on the molecules"""
    return {"kind": "elf", "vib": draw(st.booleans()), "gap": draw(st.integers(50, 600)), "J": draw(st.integers(-200, 200)),
            "w": [draw(st.integers(150, 500)), draw(st.integers(150, 500))],
            "hr": [draw(st.integers(1, 12)) / 10.0, draw(st.integers(1, 12)) / 10.0],
            "n1": draw(st.integers(2, 3)), "rates": [draw(st.integers(1, 30)), draw(st.integers(1, 30))],
            "extra": draw(st.integers(-5, 5)) / 10.0}


def strategy(tier):
    big = tier == "thorough"
    return st.one_of(_system(big), _system(big), _system(big), _lind(), _elf())


def identities(ctx, R, tag, basis):
    """trace and Hermiticity identities on a 4- or 5-index array"""
    R = numpy.asarray(R)
    if R.ndim == 4:
        R = R[None]
    if not numpy.all(numpy.isfinite(R)):
        ctx.fail("finite", tag, basis=basis)
        return 0.0
    scale = float(numpy.max(numpy.abs(R)))
    tr = float(numpy.max(numpy.abs(numpy.einsum("taacd->tcd", R))))
    he = float(numpy.max(numpy.abs(numpy.conj(R) - numpy.transpose(R, (0, 2, 1, 4, 3)))))
    tol = 1e-9 * scale + 1e-13
    ctx.bound("trace-identity", tr, tol, where=tag, basis=basis)
    ctx.bound("hermiticity-identity", he, tol, where=tag, basis=basis)
    return scale


def action_identities(ctx, RT, A, tag, basis):
    """operator-form tensors: tr R(A) = 0 and R(A)+ = R(A+)"""
    from quantarhei.qm import Operator
    r1 = numpy.array(RT.apply(Operator(data=A.copy())).data)
    r2 = numpy.array(RT.apply(Operator(data=A.conj().T.copy())).data)
    scale = max(float(numpy.max(numpy.abs(r1))), float(numpy.max(numpy.abs(r2))))
    tol = 1e-9 * scale + 1e-13
    ctx.bound("trace-identity", abs(numpy.trace(r1)), tol, where=tag + "/action", basis=basis)
    ctx.bound("hermiticity-identity", float(numpy.max(numpy.abs(r1.conj().T - r2))), tol, where=tag + "/action",
              basis=basis)
    return scale


def read_all_bases(ctx, qr, RT, ham, other, A, tag, as_ops):
    from quantarhei.qm import SelfAdjointOperator
    scale = 0.0
    oth = SelfAdjointOperator(data=numpy.array(other, dtype=float))

    def one(basis):
        if as_ops:
            return action_identities(ctx, RT, A, tag, basis)
        return identities(ctx, RT.data, tag, basis)
    scale = max(scale, one("outside"))
    with qr.eigenbasis_of(ham):
        scale = max(scale, one("eigenbasis_of(H)"))
    with qr.eigenbasis_of(oth):
        scale = max(scale, one("other-basis"))
        with qr.eigenbasis_of(ham):
            scale = max(scale, one("nested"))
    scale = max(scale, one("outside-again"))
    return scale


def _check_elf(case, ctx):
    import quantarhei as qr
    from quantarhei.qm import Operator, SystemBathInteraction
    tag = "electronic-lindblad/" + ("vibronic" if case["vib"] else "electronic")
    ctx.label(tag)
    ctx.mark_nontrivial(case["vib"] and case["J"] != 0)

    def build():
        with qr.energy_units("1/cm"):
            mols = [qr.Molecule([0.0, 10000.0]), qr.Molecule([0.0, 10000.0 + case["gap"]])]
            if case["vib"]:
                for k, m in enumerate(mols):
                    md = qr.Mode(float(case["w"][k]))
                    m.add_Mode(md)
                    md.set_nmax(0, 2)
                    md.set_nmax(1, case["n1"])
                    md.set_HR(1, case["hr"][k])
            agg = qr.Aggregate(molecules=mols)
            if case["J"]:
                agg.set_resonance_coupling(0, 1, float(case["J"]))
        agg.build()
        K12 = Operator(dim=3, real=True)
        K12.data[1, 2] = 1.0
        K12.data[2, 2] = case["extra"]
        K21 = Operator(dim=3, real=True)
        K21.data[2, 1] = 1.0
        agg.set_SystemBathInteraction(SystemBathInteraction(sys_operators=[K12, K21],
                                                            rates=(case["rates"][0] / 1000.0, case["rates"][1] / 1000.0)))
        return agg

    def tensor(secular):
        RT, ham = build().get_RelaxationTensor(qr.TimeAxis(0.0, 10, 1.0), relaxation_theory="electronic_Lindblad",
                                               secular_relaxation=secular)
        if RT.as_operators:
            RT.convert_2_tensor()
        return numpy.array(RT.data)
    ok1, full = guarded(ctx, "construct", lambda: tensor(False), tag)
    ok2, sec = guarded(ctx, "construct", lambda: tensor(True), tag + "/secular")
    if not (ok1 and ok2):
        return
    for nm, R in (("full", full), ("secular", sec)):
        identities(ctx, R, tag + "/" + nm, "outside")
    d = full.shape[0]
    keep = numpy.zeros((d, d, d, d), dtype=bool)
    for a in range(d):
        for b in range(d):
            keep[a, a, b, b] = True
            keep[a, b, a, b] = True
    sc = max(1e-300, float(numpy.max(numpy.abs(full))))
    ctx.bound("secular/other-elements-zero", float(numpy.max(numpy.abs(sec[~keep]))), 1e-10 * sc, where=tag)
    ctx.bound("secular/kept-elements-unchanged", float(numpy.max(numpy.abs((sec - full)[keep]))), 1e-10 * sc, where=tag)


def check_case(case, ctx):
    if case["kind"] == "lindblad":
        return _check_lind(case, ctx)
    if case["kind"] == "elf":
        return _check_elf(case, ctx)
    return _check_system(case, ctx)


def _build(qr, case, secular, as_ops=None):
    from quantarhei.qm import RedfieldRelaxationTensor, TDRedfieldRelaxationTensor
    spec = case["spec"]
    as_ops = case["as_ops"] if as_ops is None else as_ops
    agg = gens.make_aggregate(qr, spec)
    t0, nt, dt = spec["time"]
    ta = qr.TimeAxis(t0, int(nt), dt)
    ct = None if case["cutoff_time"] is None else case["cutoff_time"] * nt * dt
    theory = {"stR": "standard_Redfield", "stF": "standard_Foerster", "cRF": "combined_RedfieldFoerster"}[case["theory"]]
    if case["route"] == "direct":
        ham = agg.get_Hamiltonian()
        sbi = agg.get_SystemBathInteraction()
        ham.protect_basis()
        with qr.eigenbasis_of(ham):
            if case["td"]:
                RT = TDRedfieldRelaxationTensor(ham, sbi, cutoff_time=ct, as_operators=as_ops)
            else:
                RT = RedfieldRelaxationTensor(ham, sbi, cutoff_time=ct, as_operators=as_ops)
            if secular:
                RT.secularize()
        ham.unprotect_basis()
        return RT, ham
    kw = dict(relaxation_theory=theory, time_dependent=case["td"], secular_relaxation=secular)
    if case["theory"] == "stR":
        kw["as_operators"] = as_ops
        if case["td"]:
            kw["relaxation_cutoff_time"] = ct
    if case.get("prior_call") and secular == case["secular"] and as_ops == case["as_ops"]:
        # (only for the tensor under test, not for the twins built for comparison)
        kw0 = dict(kw, secular_relaxation=not secular if case["theory"] != "stF" and not (case["td"] and as_ops) else secular,
                   time_dependent=(not case["td"]) if case["theory"] == "stF" else case["td"])
        if kw0.get("time_dependent") is not case["td"]:
            kw0.pop("relaxation_cutoff_time", None)
        if case["theory"] == "cRF":
            with qr.energy_units("1/cm"):
                agg.get_RelaxationTensor(ta, coupling_cutoff=case["coupling_cutoff"], **kw0)
        else:
            agg.get_RelaxationTensor(ta, **kw0)
        kw["recalculate"] = False
    if case["theory"] == "cRF":
        with qr.energy_units("1/cm"):
            return agg.get_RelaxationTensor(ta, coupling_cutoff=case["coupling_cutoff"], **kw)
    return agg.get_RelaxationTensor(ta, **kw)


def _check_system(case, ctx):
    import quantarhei as qr
    spec = case["spec"]
    n = len(spec["E"])
    coupled = any(spec["J"][i][j] != 0 for i in range(n) for j in range(i + 1, n))
    tag = "%s/%s%s%s" % (case["theory"], "td" if case["td"] else "static", "/ops" if case["as_ops"] else "",
                         "/secular" if case["secular"] else "")
    ctx.label("theory=" + case["theory"], "td" if case["td"] else "static", "route=" + case["route"],
              "ops" if case["as_ops"] else "tensor", "secular" if case["secular"] else "full",
              "cutoff_time" if case["cutoff_time"] else "no-cutoff-time")
    A = gens.to_complex(case["A"])
    # a static operator-form tensor that is secularised is converted to tensor form by the library
    as_ops_now = case["as_ops"] and not case["secular"]
    ok, r = guarded(ctx, "construct", lambda: _build(qr, case, case["secular"]), tag)
    if not ok:
        return
    RT, ham = r
    if case.get("prior_call"):
        ctx.label("history:earlier-call-with-other-options+recalculate=False")
        want_ndim = 5 if case["td"] else 4
        if not as_ops_now:
            nd = numpy.ndim(RT._data) if hasattr(RT, "_data") else None
            if nd is not None and nd != want_ndim:
                ctx.fail("requested-options/time-dependence", tag, ndim=nd, want=want_ndim)
                return
    if case.get("reinitialize") and case["theory"] == "stF" and not case["td"]:
        # the finished tensor is initialised once more (the same inputs): still a trace- and Hermiticity-preserving map
        ok, _ = guarded(ctx, "initialize-again", lambda: RT.initialize(), tag)
        if not ok:
            return
        tag = tag + "/initialized-twice"
        ctx.label("history:initialized-twice")
    if as_ops_now and case["td"]:
        # a time-dependent tensor in operator form has no single action; it is checked element-wise after the
        # library's own conversion to tensor form
        ok, _ = guarded(ctx, "convert_2_tensor", lambda: RT.convert_2_tensor(), tag)
        if not ok:
            return
        as_ops_now = False
        tag = tag + "/converted"
    ok, scale = guarded(ctx, "read", lambda: read_all_bases(ctx, qr, RT, ham, case["other"], A, tag, as_ops_now), tag)
    if not ok:
        return
    ctx.mark_nontrivial(coupled and scale > 0)
    if as_ops_now and not case["td"]:
        # the same identities element-wise after conversion to tensor form
        ok, _ = guarded(ctx, "convert_2_tensor", lambda: RT.convert_2_tensor(), tag)
        if ok:
            guarded(ctx, "read", lambda: read_all_bases(ctx, qr, RT, ham, case["other"], A, tag + "/converted", False), tag)

    # ---- secularisation: differential against an unsecularised twin ----------------------------
    if case["secular"] and (case["theory"] == "stR" or (case["theory"] == "cRF" and not case.get("coupling_cutoff"))):
        # (combined tensor: only without a coupling cut-off, where the theory's basis is the eigenbasis of the returned
        # Hamiltonian)
        ok, r2 = guarded(ctx, "construct", lambda: _build(qr, case, False, as_ops=False), tag + "/twin")
        if not ok:
            return
        RF, ham2 = r2
        evs = numpy.linalg.eigvalsh(gens.site_hamiltonian_int(case["spec"]))
        if len(evs) > 1 and float(numpy.min(numpy.diff(evs))) <= 1e-9:
            ctx.label("secular:degenerate-spectrum-not-compared")
            return
        with qr.eigenbasis_of(ham):
            S = numpy.array(RT.data)
        with qr.eigenbasis_of(ham2):
            F = numpy.array(RF.data)
        if S.ndim == 4:
            S, F = S[None], F[None]
        if S.shape != F.shape:
            ctx.fail("secular/shape", tag, got=list(S.shape), want=list(F.shape))
            return
        d = S.shape[1]
        keep = numpy.zeros((d, d, d, d), dtype=bool)
        for a in range(d):
            for b in range(d):
                keep[a, a, b, b] = True
                keep[a, b, a, b] = True
        sc = float(numpy.max(numpy.abs(F)))
        ctx.bound("secular/kept-elements-unchanged", float(numpy.max(numpy.abs((S - F)[:, keep]))), 1e-9 * sc + 1e-13,
                  where=tag)
        # "sets every other element to zero": exact zeros in the basis of secularisation, rounding after the
        # round trip through the site basis
        ctx.bound("secular/other-elements-zero", float(numpy.max(numpy.abs(S[:, ~keep]))) if (~keep).any() else 0.0,
                  1e-9 * sc + 1e-13, where=tag)


    # ---- secularize() called explicitly, possibly repeatedly and in different bases -----------------------
    seq = case.get("resecularize") or []
    if seq and case["theory"] == "stR" and not case["td"]:
        from quantarhei.qm import SelfAdjointOperator
        ok, r3 = guarded(ctx, "construct", lambda: _build(qr, case, False, as_ops=False), tag + "/for-secularize")
        if not ok:
            return
        RS, ham3 = r3
        oth = SelfAdjointOperator(data=numpy.array(case["other"], dtype=float))
        import contextlib
        legacy_false = bool(case.get("legacy_false"))
        if legacy_false:
            seq = seq[:1]           # (that implementation marks the tensor as secular once and for all)
        for k, where_b in enumerate(seq):
            cm = {"site": contextlib.nullcontext(), "eigen": qr.eigenbasis_of(ham3), "other": qr.eigenbasis_of(oth)}[where_b]

            def call():
                with cm:
                    before = numpy.array(RS.data)
                    if legacy_false:
                        RS.secularize(legacy=False)
                    else:
                        RS.secularize()
                    return before, numpy.array(RS.data)
            ok, ba = guarded(ctx, "secularize", call, tag + "/" + where_b, call_no=k)
            if not ok:
                return
            before, after = ba
            d = before.shape[0]
            keep = numpy.zeros((d, d, d, d), dtype=bool)
            for a in range(d):
                for b in range(d):
                    keep[a, a, b, b] = True
                    keep[a, b, a, b] = True
            sc = max(1e-300, float(numpy.max(numpy.abs(before))))
            wtag = "call-%d-in-%s%s" % (min(k, 1), where_b, "/legacy=False" if legacy_false else "")
            ctx.bound("secularize-call/other-elements-zero", float(numpy.max(numpy.abs(after[~keep]))), 1e-12 * sc, where=wtag)
            ctx.bound("secularize-call/kept-elements-unchanged", float(numpy.max(numpy.abs((after - before)[keep]))),
                      1e-12 * sc, where=wtag)
        ctx.label("secularize-sequence:" + "+".join(seq))


def _check_lind(case, ctx):
    import quantarhei as qr
    from quantarhei.qm import LindbladForm, SystemBathInteraction, Operator
    H = numpy.array(case["H"], dtype=float)
    dim = H.shape[0]
    ops = []
    for o in case["ops"]:
        if "proj" in o:
            K = numpy.zeros((dim, dim))
            K[o["proj"][0] % dim, o["proj"][1] % dim] = 1.0
        else:
            K = numpy.array(o["dense"], dtype=float)
        ops.append(K)
    rates = [r / 1000.0 for r in case["rates"]]
    active = any(g > 0 and numpy.any(K - numpy.diag(numpy.diag(K)) != 0) for K, g in zip(ops, rates))
    tag = "lindblad/" + case["form"] + ("/secular" if case["secular"] else "")
    ctx.label("lindblad", "form=" + case["form"], "secular" if case["secular"] else "full")
    A = gens.to_complex(case["A"])

    def build(secular, form):
        with qr.energy_units("int"):
            ham = qr.Hamiltonian(data=H.copy())
        sbi = SystemBathInteraction([Operator(data=K.copy()) for K in ops], rates=tuple(rates))
        lf = LindbladForm(ham, sbi, as_operators=(form != "tensor"))
        if form == "converted":
            lf.convert_2_tensor()
        if secular:
            with qr.eigenbasis_of(ham):
                lf.convert_2_tensor()
                lf.secularize()
        return lf, ham
    ok, r = guarded(ctx, "construct", lambda: build(case["secular"], case["form"]), tag)
    if not ok:
        return
    lf, ham = r
    as_ops_now = case["form"] == "op" and not case["secular"]
    ok, scale = guarded(ctx, "read", lambda: read_all_bases(ctx, qr, lf, ham, case["other"], A, tag, as_ops_now), tag)
    if not ok:
        return
    ctx.mark_nontrivial(active and scale > 0)
    # independent element-wise reference for the unsecularised tensor form
    if not case["secular"] and case["form"] != "op":
        I = numpy.eye(dim)
        ref = numpy.zeros((dim, dim, dim, dim))
        for K, g in zip(ops, rates):
            KdK = K.T @ K
            ref += g * (numpy.einsum("ac,bd->abcd", K, K) - 0.5 * numpy.einsum("ac,bd->abcd", KdK, I)
                        - 0.5 * numpy.einsum("ac,db->abcd", I, KdK))
        ctx.close("lindblad/elements", numpy.array(lf.data), ref, rtol=1e-9, where=tag)
    if case["secular"]:
        ok, r2 = guarded(ctx, "construct", lambda: build(False, "tensor"), tag + "/twin")
        if not ok:
            return
        lf2, ham2 = r2
        with qr.eigenbasis_of(ham):
            S = numpy.array(lf.data)
        with qr.eigenbasis_of(ham2):
            F = numpy.array(lf2.data)
        keep = numpy.zeros((dim, dim, dim, dim), dtype=bool)
        for a in range(dim):
            for b in range(dim):
                keep[a, a, b, b] = True
                keep[a, b, a, b] = True
        sc = max(1e-12, float(numpy.max(numpy.abs(F))))
        # degenerate eigenvalues make the eigenbasis (hence the secular tensor) non-unique between two constructions
        # (also between two visits of the eigenbasis of one Hamiltonian object: the round trip through the site basis
        # leaves rounding noise that decides the basis inside a degenerate subspace)
        ev = numpy.linalg.eigvalsh(H)
        if numpy.min(numpy.diff(ev)) > 1e-6:
            ctx.bound("secular/kept-elements-unchanged", float(numpy.max(numpy.abs((S - F)[keep]))), 1e-9 * sc + 1e-13,
                      where=tag)
            ctx.bound("secular/other-elements-zero", float(numpy.max(numpy.abs(S[~keep]))), 1e-9 * sc + 1e-13, where=tag)
        else:
            ctx.label("secular:degenerate-spectrum-not-compared")
