"""C10  Vibronic structure follows the displaced-oscillator model.

Oracles: closed forms (Poisson distribution, Laguerre formula for the
displacement operator) typed into the check; from-scratch Frenkel model of
C03 for the electronic factor; direct state counting.
"""
import math

import numpy
import scipy.special
from hypothesis import strategies as st

from .. import oracles as orc
from ..core import guarded, HarnessError

ID = "C10"
TECHNIQUE = ("Hypothesis-generated shifts and vibronic molecules/aggregates against closed-form Franck-Condon "
             "factors (Poisson/Laguerre) times the from-scratch Frenkel electronic model")
LEVEL = ("(System cases also with build(mult=2, fem_full=True), Huang-Rhys factors up to 4.5 with up to 14 excited-state levels, and aggregates rebuilt after a Huang-Rhys factor was changed.) " "(a) operator_factory(100).shift_operator(d) for generated shifts |d| <= 3: leading 20x20 block (the block the "
         "aggregate uses) against the Laguerre closed form, first column against the Poisson law with mean d^2/2, "
         "orthogonality of the 100-level matrix and of the physically converged leading rows. (b) generated molecules "
         "with 1-2 modes and aggregates of 1-3 of them: number of vibronic states per electronic state, and every "
         "Hamiltonian, dipole and FCf element against (electronic Frenkel element) x (product over all modes of the "
         "closed-form overlap of the shift difference), diagonals against electronic + sum n*omega; HR/shift relation."
         " Later additions: couplings asked for state by state, also while other units are current. Round five: single modes with another excited-state frequency and with more than 20 levels; complex displacements; deterministic grid of deep vibronic systems.")
NOTE = ("Full vibrational state space only (vibgen_approx=None); two-level molecules; <= 3 molecules, <= 2 modes each, "
        "<= 4 levels per electronic state, <= 48 (quick) / 110 (thorough) vibronic states; shifts only in excited states.")
RULE = ("kind=shift: d = k/100, |k| <= 300. kind=system: 1..3 molecules x 0..2 modes (frequency 100..1500 cm^-1, "
        "HR = k/20 in 0..2, sign of shift, 1..4 levels per electronic state), couplings, multiplicity 1|2. "
        "Non-trivial (shift): |d| >= 0.3. Non-trivial (system): a mode with HR > 0.05 and >= 2 levels in both "
        "states, and for aggregates >= 2 molecules with a non-zero coupling.")
ASSUMPTIONS = [
    "quantum numbers <= 19 (the 20x20 block the aggregate keeps); truncation of the 100-level basis is negligible "
    "there for |d| <= 3 (observed residual 7e-15)",
]
BUDGET = {"quick": (400, 75), "thorough": (1500, 600)}


def displacement_element(beta, m, n):
    """<m| exp(beta a+ - beta a) |n> for real beta (Cahill-Glauber)."""
    x = beta * beta
    if m >= n:
        return (math.sqrt(math.factorial(n) / math.factorial(m)) * beta ** (m - n) * math.exp(-x / 2.0)
                * scipy.special.eval_genlaguerre(n, m - n, x))
    return (math.sqrt(math.factorial(m) / math.factorial(n)) * (-beta) ** (n - m) * math.exp(-x / 2.0)
            * scipy.special.eval_genlaguerre(m, n - m, x))


_fc_cache = {}


def fc_matrix(shift, size=20):
    key = (round(float(shift), 12), size)
    if key not in _fc_cache:
        b = float(shift) / math.sqrt(2.0)
        _fc_cache[key] = numpy.array([[displacement_element(b, m, n) for n in range(size)] for m in range(size)])
        if len(_fc_cache) > 4000:
            _fc_cache.clear()
    return _fc_cache[key]


@st.composite
def _system(draw, big):
    n = draw(st.integers(1, 3))
    mols = []
    total_ground = 1
    for i in range(n):
        nm = draw(st.sampled_from([0, 1, 1, 2, 2, 3]))
        modes = []
        for _ in range(nm):
            modes.append({"w": draw(st.integers(100, 1500)), "hr20": draw(st.integers(0, 40) | st.sampled_from([0, 10, 20])),
                          # nearly equal (not equal) Huang-Rhys factors on different modes: HR = hr20/20 + hre*1e-4
                          "hre": draw(st.sampled_from([0, 0, 1, 2, 4, 7])),
                          "neg": draw(st.booleans()),
                          "n0": draw(st.integers(1, 3 if not big else 4)), "n1": draw(st.integers(1, 3 if not big else 4))})
        mols.append({"E": draw(st.integers(9000, 16000)), "d": [draw(st.integers(-4, 4)) / 2.0 for _ in range(3)],
                     "modes": modes})
    J = [[0] * n for _ in range(n)]
    for i in range(n):
        for j in range(i + 1, n):
            J[i][j] = J[j][i] = draw(st.sampled_from([0, 1, 1])) * draw(st.integers(-400, 400))
    case = {"kind": "system", "mols": mols, "J": J, "mult": draw(st.sampled_from([1, 1, 2]))}
    # mult = 2 may be built with the couplings between bands that differ by two excitations (fem_full)
    case["fem_full"] = case["mult"] == 2 and n >= 2 and draw(st.booleans())
    # the aggregate is diagonalised before its (site-basis) operators are read
    case["diagonalize_first"] = draw(st.sampled_from([False, False, True]))
    # units that are current when couplings between single states are asked for
    case["coupling_units"] = draw(st.sampled_from([None, "1/cm", "eV"]))
    allm = [md for m in mols for md in m["modes"]]
    if allm and draw(st.sampled_from([False, False, True])):
        # strongly displaced mode with many levels in the excited state (one level in the ground state keeps the
        # state space small): high rows and columns of the overlap matrix
        md = allm[draw(st.integers(0, len(allm) - 1))]
        md["hr20"] = draw(st.integers(20, 90))
        md["n0"] = 1
        md["n1"] = draw(st.integers(6, 14))
    case = _cap(case, 48 if not big else 110)
    if allm and draw(st.sampled_from([False, False, True])):
        # the aggregate object is re-used: after the first build the Huang-Rhys factor of one mode is changed and the
        # aggregate is rebuilt (rebuild() or a second build())
        case["rebuild"] = {"mode": draw(st.integers(0, len(allm) - 1)), "hr20": draw(st.integers(0, 40)),
                           "how": draw(st.sampled_from(["rebuild", "build"]))}
    return case


def _count_states(case):
    n = len(case["mols"])
    mult = case["mult"] if n > 1 else 1
    tot = 0
    for s in orc.frenkel_signatures(n, mult):
        p = 1
        for i, m in enumerate(case["mols"]):
            for md in m["modes"]:
                p *= md["n%d" % s[i]]
        tot += p
    return tot


def _cap(case, cap):
    """Keep the vibronic state space small (build is O(states^2) Python): lower the largest level count
    until the aggregate has at most `cap` states (construction, not rejection)."""
    while _count_states(case) > cap:
        best = None
        for m in case["mols"]:
            for md in m["modes"]:
                for k in ("n0", "n1"):
                    if best is None or md[k] > best[0][best[1]]:
                        best = (md, k)
        if best is None or best[0][best[1]] <= 1:
            break
        best[0][best[1]] -= 1
    return case


def grid(tier):
    """Fixed vibronic systems that exercise the deep corners at every seed: a strongly displaced mode with many levels,
    modes on two molecules with the two-exciton band, nearly equal Huang-Rhys factors, a rebuilt aggregate."""
    def mode(w, hr20, n0, n1, neg=False, hre=0):
        return {"w": w, "hr20": hr20, "hre": hre, "neg": neg, "n0": n0, "n1": n1}
    m_a = {"E": 12000, "d": [1.0, 0.0, 0.5], "modes": [mode(300, 60, 1, 12)]}
    m_b = {"E": 12300, "d": [0.0, 1.5, 0.0], "modes": [mode(450, 24, 2, 9, neg=True)]}
    m_c = {"E": 11900, "d": [0.5, 0.5, 0.0], "modes": []}
    m_d = {"E": 12100, "d": [1.0, 1.0, 0.0], "modes": [mode(200, 10, 2, 2), mode(200, 10, 2, 2, hre=2)]}
    base = {"kind": "system", "fem_full": False, "diagonalize_first": False, "coupling_units": "1/cm"}
    yield dict(base, mols=[m_a, m_c], J=[[0, 120], [120, 0]], mult=1)
    yield dict(base, mols=[m_a, m_b], J=[[0, -90], [-90, 0]], mult=1)
    yield dict(base, mols=[m_b, m_c, m_d], J=[[0, 80, 30], [80, 0, -60], [30, -60, 0]], mult=2, coupling_units="eV")
    yield dict(base, mols=[m_d, m_c], J=[[0, 150], [150, 0]], mult=2, fem_full=True)
    yield dict(base, mols=[m_d, m_c], J=[[0, 150], [150, 0]], mult=1, diagonalize_first=True,
               rebuild={"mode": 0, "hr20": 16, "how": "rebuild"})


def strategy(tier):
    # "phase": the displacement may be complex (the operator is defined for complex alpha)
    shift = st.builds(lambda k, ph: {"kind": "shift", "k": k, "phase": ph}, st.integers(-300, 300),
                      st.sampled_from([0, 0, 1, 2, 3, 5]))
    # a single mode: excited-state frequency different from the ground-state one, set before the Huang-Rhys factor;
    # level counts beyond 20
    mode1 = st.builds(lambda w, r, hr20, n0, n1: {"kind": "mode", "w": w, "ratio": r, "hr20": hr20, "n0": n0, "n1": n1},
                      st.integers(100, 1500), st.sampled_from([1.0, 0.95, 1.1, 0.8]), st.integers(1, 60),
                      st.integers(1, 4) | st.sampled_from([21, 24]), st.integers(1, 4) | st.sampled_from([22, 26, 30]))
    return st.one_of(shift, mode1, _system(tier == "thorough"), _system(tier == "thorough"))


def _mode(case, ctx):
    import quantarhei as qr
    hr = case["hr20"] / 20.0
    ctx.label("single-mode", "levels>20" if max(case["n0"], case["n1"]) > 20 else "levels<=20",
              "same-frequency" if case["ratio"] == 1.0 else "other-frequency-in-excited-state")
    ctx.mark_nontrivial(case["ratio"] != 1.0 or max(case["n0"], case["n1"]) > 20)

    def make():
        with qr.energy_units("1/cm"):
            mol = qr.Molecule([0.0, 12000.0])
            mode = qr.Mode(float(case["w"]))
            mol.add_Mode(mode)
            if case["ratio"] != 1.0:
                mode.set_energy(1, float(case["w"]) * case["ratio"])
            mode.set_nmax(0, case["n0"])
            mode.set_nmax(1, case["n1"])
            mode.set_HR(1, hr)
        return mol, mode
    ok, mm = guarded(ctx, "mode/construct", make)
    if not ok:
        return
    mol, mode = mm
    # the Huang-Rhys factor is the Poisson mean of the overlaps from the vibrational ground state: shift = sqrt(2 S)
    ctx.close("hr-shift", mode.get_shift(1), math.sqrt(2.0 * hr), rtol=1e-12, atol=1e-14, where="single-mode")
    ctx.close("hr-roundtrip", mode.get_HR(1), hr, rtol=1e-12, atol=1e-14, where="single-mode")
    for el in (0, 1):
        if int(mode.get_nmax(el)) != case["n%d" % el]:
            ctx.fail("molecule/state-count", "declared-levels", state=el, got=int(mode.get_nmax(el)), want=case["n%d" % el])
            return
    ok, hm = guarded(ctx, "molecule/hamiltonian", lambda: mol.get_Hamiltonian())
    if ok and int(hm.dim) != case["n0"] + case["n1"]:
        ctx.fail("molecule/state-count", "single-mode", got=int(hm.dim), want=case["n0"] + case["n1"])


def check_case(case, ctx):
    if case["kind"] == "mode":
        return _mode(case, ctx)
    if case["kind"] == "shift":
        return _shift(case, ctx)
    return _system_check(case, ctx)


def _shift(case, ctx):
    from quantarhei.qm.oscillators.ho import operator_factory
    d = case["k"] / 100.0
    if case.get("phase"):
        # complex displacement alpha = d exp(i phi): the operator is unitary and the overlaps from the ground state are
        # Poisson with mean |alpha|^2 / 2
        alpha = d * complex(math.cos(case["phase"] * math.pi / 7.0), math.sin(case["phase"] * math.pi / 7.0))
        ctx.label("shift:complex")
        ctx.mark_nontrivial(abs(d) >= 0.3)
        ok, S = guarded(ctx, "shift-operator", lambda: operator_factory(100).shift_operator(alpha), "complex")
        if not ok:
            return
        S = numpy.asarray(S)
        Sf = abs(alpha) ** 2 / 2.0
        pois = numpy.array([math.exp(-Sf) * Sf ** n / math.factorial(n) for n in range(20)])
        ctx.close("franck-condon/poisson", numpy.abs(S[:20, 0]) ** 2, pois, rtol=0, atol=1e-9, where="complex", d=d)
        ctx.close("franck-condon/rows-normalised", numpy.sum(numpy.abs(S[:20, :]) ** 2, axis=1), numpy.ones(20), rtol=0,
                  atol=1e-8, where="complex")
        return
    ctx.label("shift")
    ctx.mark_nontrivial(abs(d) >= 0.3)
    ok, S = guarded(ctx, "shift-operator", lambda: operator_factory(100).shift_operator(d))
    if not ok:
        return
    S = numpy.asarray(S)
    ctx.bound("shift-operator/real", float(numpy.max(numpy.abs(S.imag))), 1e-9)
    S = S.real
    ref = fc_matrix(d)
    ctx.close("franck-condon/laguerre", S[:20, :20], ref, rtol=0, atol=1e-9, d=d)
    Sfac = d * d / 2.0
    pois = numpy.array([math.exp(-Sfac) * Sfac ** n / math.factorial(n) for n in range(20)])
    ctx.close("franck-condon/poisson", S[:20, 0] ** 2, pois, rtol=0, atol=1e-9, d=d)
    ctx.close("franck-condon/orthogonal", S @ S.T, numpy.eye(100), rtol=0, atol=1e-8, d=d)
    # physically converged rows: the first 20 oscillator states are fully contained in the 100-level basis
    ctx.close("franck-condon/rows-normalised", numpy.sum(S[:20, :] ** 2, axis=1), numpy.ones(20), rtol=0, atol=1e-8)


def _hr(md):
    return md["hr20"] / 20.0 + md.get("hre", 0) * 1.0e-4


def _make(qr, case):
    mols = []
    modes_out = []
    with qr.energy_units("1/cm"):
        for m in case["mols"]:
            mol = qr.Molecule([0.0, float(m["E"])])
            mol.set_dipole(0, 1, list(m["d"]))
            for md in m["modes"]:
                mode = qr.Mode(float(md["w"]))
                mol.add_Mode(mode)
                mode.set_nmax(0, md["n0"])
                mode.set_nmax(1, md["n1"])
                hr = _hr(md)
                if md["neg"]:
                    mode.set_shift(1, -math.sqrt(2.0 * hr))
                else:
                    mode.set_HR(1, hr)
                modes_out.append(mode)
            mols.append(mol)
    return mols, modes_out


def _system_check(case, ctx):
    import quantarhei as qr
    n = len(case["mols"])
    J, mult = case["J"], case["mult"]
    if n == 1:
        mult = 1
    allmodes = [md for m in case["mols"] for md in m["modes"]]
    ctx.label("system", "N=%d" % n, "modes=%d" % len(allmodes), "mult=%d" % mult)
    good_mode = any(_hr(md) > 0.05 and md["n0"] >= 2 and md["n1"] >= 2 for md in allmodes)
    coupled = any(J[i][j] != 0 for i in range(n) for j in range(i + 1, n))
    ctx.mark_nontrivial(good_mode and (n == 1 or coupled))

    ok, made = guarded(ctx, "construct", lambda: _make(qr, case))
    if not ok:
        return
    mols, modes = made

    # ---- HR / shift relation -----------------------------------------------------
    for md, mode in zip(allmodes, modes):
        hr = _hr(md)
        want = (-1.0 if md["neg"] else 1.0) * math.sqrt(2.0 * hr)
        ctx.close("hr-shift", mode.get_shift(1), want, rtol=1e-12, atol=1e-14)
        ctx.close("hr-roundtrip", mode.get_HR(1), hr, rtol=1e-12, atol=1e-14)

    # ---- molecule: number of vibronic states -----------------------------------------
    for m, mol in zip(case["mols"], mols):
        want = 0
        for el in (0, 1):
            p = 1
            for md in m["modes"]:
                p *= md["n%d" % el]
            want += p
        ok, hm = guarded(ctx, "molecule/hamiltonian", lambda mol=mol: mol.get_Hamiltonian())
        if ok:
            if hm.dim != want:
                ctx.fail("molecule/state-count", got=int(hm.dim), want=want, modes=m["modes"])
            else:
                with qr.energy_units("int"):
                    hd = numpy.array(hm.data)
                ctx.close("molecule/hermitian", hd, hd.conj().T, rtol=1e-12, scale=3.0)
                # independent modes: the spectrum of a molecule with several modes is the Kronecker sum of the spectra
                # of the same molecule with one mode at a time (electronic blocks are not coupled)
                if len(m["modes"]) >= 2:
                    def single(k):
                        with qr.energy_units("1/cm"):
                            one = qr.Molecule([0.0, float(m["E"])])
                            md = m["modes"][k]
                            mo = qr.Mode(float(md["w"]))
                            one.add_Mode(mo)
                            mo.set_nmax(0, md["n0"]); mo.set_nmax(1, md["n1"])
                            hr = _hr(md)
                            if md["neg"]:
                                mo.set_shift(1, -math.sqrt(2.0 * hr))
                            else:
                                mo.set_HR(1, hr)
                        with qr.energy_units("int"):
                            return numpy.array(one.get_Hamiltonian().data)
                    ok2, parts = guarded(ctx, "molecule/hamiltonian", lambda: [single(k) for k in range(len(m["modes"]))])
                    if ok2:
                        want_levels = []
                        off = 0
                        Eel = [0.0, m["E"] * orc.CM2INT]
                        for el in (0, 1):
                            sums = numpy.array([0.0])
                            for k, md in enumerate(m["modes"]):
                                n0k = md["n0"]
                                blk = parts[k][:n0k, :n0k] if el == 0 else parts[k][n0k:, n0k:]
                                evk = numpy.linalg.eigvalsh(blk) - Eel[el]
                                sums = (sums[:, None] + evk[None, :]).ravel()
                            want_levels.extend(list(sums + Eel[el]))
                        ctx.close("molecule/spectrum-is-kronecker-sum", numpy.linalg.eigvalsh(hd), numpy.sort(want_levels),
                                  rtol=1e-9, scale=max(1.0, m["E"] * orc.CM2INT), modes=len(m["modes"]))

    # ---- aggregate -------------------------------------------------------------------
    def build():
        agg = qr.Aggregate(molecules=mols)
        with qr.energy_units("1/cm"):
            for i in range(n):
                for j in range(i + 1, n):
                    if J[i][j]:
                        agg.set_resonance_coupling(i, j, float(J[i][j]))
        kw = {"fem_full": True} if case.get("fem_full") else {}
        agg.build(mult=mult, **kw)
        rb = case.get("rebuild")
        if rb:
            modes[rb["mode"]].set_HR(1, rb["hr20"] / 20.0)
            if rb["how"] == "rebuild" and not kw:
                agg.rebuild(mult=mult)
            else:
                agg.clean()
                agg.build(mult=mult, **kw)
        return agg
    ok, agg = guarded(ctx, "aggregate/build", build)
    if not ok:
        return
    if case.get("rebuild"):
        # from here on the expectation is that of the changed Huang-Rhys factor
        import copy
        case = copy.deepcopy(case)
        k = 0
        for m in case["mols"]:
            for md in m["modes"]:
                if k == case["rebuild"]["mode"]:
                    md["hr20"], md["hre"], md["neg"] = case["rebuild"]["hr20"], 0, False
                k += 1
        ctx.label("rebuilt-after-HR-change")
    if case.get("fem_full"):
        ctx.label("fem_full")
    if case.get("diagonalize_first"):
        ok, _ = guarded(ctx, "aggregate/diagonalize", lambda: agg.diagonalize())
        if not ok:
            return
        ctx.label("diagonalized-before-read")
    with qr.energy_units("int"):
        H = numpy.array(agg.get_Hamiltonian().data, dtype=float)
    D = numpy.array(agg.get_TransitionDipoleMoment().data, dtype=float)
    FCf = numpy.array(agg.FCf, dtype=float)
    states = [(tuple(int(x) for x in es), tuple(int(x) for x in vs)) for es, vs in agg.vibsigs]

    # expected state set: all occupation signatures x all vibrational tuples
    sigs = orc.frenkel_signatures(n, mult)
    want_states = []
    for s in sigs:
        dims = []
        for i, m in enumerate(case["mols"]):
            for md in m["modes"]:
                dims.append(md["n%d" % s[i]])
        for q in numpy.ndindex(*dims) if dims else [()]:
            want_states.append((s, tuple(int(x) for x in q)))
    if sorted(states) != sorted(want_states) or len(set(states)) != len(states):
        ctx.fail("aggregate/state-count", got=len(states), want=len(want_states))
        return
    if H.shape[0] != len(states):
        ctx.fail("aggregate/state-count", got=int(H.shape[0]), want=len(states), why="matrix dimension")
        return
    bands = [sum(s) for s, _ in states]
    if bands != sorted(bands):
        ctx.fail("aggregate/band-order")
        return

    Eint = [m["E"] * orc.CM2INT for m in case["mols"]]
    Jint = [[x * orc.CM2INT for x in row] for row in J]
    dips = [m["d"] for m in case["mols"]]
    # per (global mode index): owning molecule, frequency, shift in state 1
    minfo = []
    for i, m in enumerate(case["mols"]):
        for md in m["modes"]:
            hr = _hr(md)
            minfo.append((i, md["w"] * orc.CM2INT, (-1.0 if md["neg"] else 1.0) * math.sqrt(2.0 * hr)))
    ns = len(states)
    Href = numpy.zeros((ns, ns))
    Dref = numpy.zeros((ns, ns, 3))
    Fref = numpy.zeros((ns, ns))
    for a, (sa, qa) in enumerate(states):
        for b, (sb, qb) in enumerate(states):
            fc = 1.0
            for k, (owner, w, sh) in enumerate(minfo):
                dshift = sh * sa[owner] - sh * sb[owner]
                fc *= fc_matrix(dshift)[qa[k], qb[k]]
            Fref[a, b] = fc
            if a == b:
                Href[a, a] = sum(e for e, o in zip(Eint, sa) if o) + sum(qa[k] * minfo[k][1] for k in range(len(minfo)))
            elif sa != sb:
                Href[a, b] = orc.frenkel_element(sa, sb, Eint, Jint) * fc
                if case.get("fem_full") and abs(sum(sa) - sum(sb)) == 2:
                    # two molecules excited (or de-excited) at once: the resonance coupling of that pair
                    diff = [i for i in range(n) if sa[i] != sb[i]]
                    if len(diff) == 2:
                        Href[a, b] = Jint[diff[0]][diff[1]] * fc
            Dref[a, b, :] = orc.frenkel_dipole(sa, sb, dips) * fc
    escale = max(Eint) * mult
    ctx.close("aggregate/fc-factors", FCf, Fref, rtol=0, atol=1e-9)
    ctx.close("aggregate/hamiltonian", H, Href, rtol=1e-9, scale=escale, mult=mult)
    ctx.close("aggregate/dipole", D, Dref, rtol=0, atol=1e-9 * 3.0, mult=mult)

    # ---- couplings asked for state by state, possibly while other energy units are current -----------------------
    cunit = case.get("coupling_units") or "int"
    pairs = [(a, b) for a in range(ns) for b in range(ns)
             if a < b and states[a][0] != states[b][0] and sum(states[a][0]) == sum(states[b][0]) and Href[a, b] != 0.0][:8]
    if pairs and n >= 2:
        def direct():
            sts = [st_ for _, st_ in agg.allstates(mult=mult)]
            if len(sts) != ns:
                raise HarnessError("allstates yields %d states, the aggregate has %d" % (len(sts), ns))
            with qr.energy_units(cunit):
                return [float(agg.coupling(sts[a], sts[b])) for a, b in pairs]
        ok, got = guarded(ctx, "aggregate/coupling-of-states", direct, cunit)
        if ok:
            want = [float(orc.from_internal(Href[a, b], cunit)) for a, b in pairs]
            ctx.close("aggregate/coupling-of-states", got, want, rtol=1e-9,
                      scale=max(1e-300, max(abs(x) for x in want)), where="units=" + cunit, mult=mult)
            ctx.label("coupling-of-states:" + cunit)
