"""C14  Initial and thermal states are valid Boltzmann density matrices.

Oracle: softmax(-E/kT) evaluated in the log domain on energies from the
oracle's own Hamiltonian / eigen-decomposition; validity predicates (finite,
Hermitian, positive semidefinite, unit trace); the same request made outside
any context as reference for requests made inside one.
"""
import math

import numpy
from hypothesis import strategies as st

from .. import oracles as orc
from .. import gens
from ..core import guarded

ID = "C14"
TECHNIQUE = ("Hypothesis-generated (system, temperature incl. 0 and the exponent-underflow edge, condition, requesting "
             "context) against log-domain Boltzmann weights and validity predicates; inside-vs-outside differential")
LEVEL = ("For generated aggregates (1-4 sites, with/without a vibrational mode) and molecules: every density matrix "
         "returned for condition thermal / thermal_excited_state (weak, strong coupling) / impulsive_excitation and "
         "get_thermal_ReducedDensityMatrix is finite, Hermitian and positive semidefinite; thermal ones have unit "
         "trace and populations equal to softmax(-E/kT) in their defining basis (site energies; exciton energies; "
         "site energies minus reorganisation energies) for T = 0, T -> 0+ and temperatures around the point where "
         "exp(-E/kT) underflows; a state requested inside eigenbasis_of(H) or inside an unrelated basis context and "
         "read after all contexts are closed equals the state requested outside; so does a state requested while other "
         "energy units are current, and a state requested from an aggregate that has been used before (diagonalised, "
         "relaxation tensors or rate matrices built from it)."
         " Later additions: deterministic grid of conditions x contexts; two-exciton band; modes on two molecules; supplied effective Hamiltonian in the weak-coupling limit; thermal reduced density matrices in units contexts and with non-zero ground-state energies. Round five: a molecule from which one of two environments was removed; a molecule without bath at T = 0.")
NOTE = ("The 'thermal' condition does not fix its basis (the code says so); its Boltzmann clause is asserted for requests "
        "made outside any context (site basis). With vibrational levels only 'thermal', the weak-coupling state and "
        "get_thermal_ReducedDensityMatrix and the strong-coupling state (vibronic diagonal energies minus the site's "
        "reorganisation energy) have a Boltzmann clause. Degenerate lowest levels are excluded from the T = 0 clause.")
RULE = ("case = gens.system_spec(N 1..4) + optional mode + temperature code (0 | 10^(k/10) K | factor x underflow edge) "
        "+ condition + requesting context. Non-trivial: T > 0 with >= 2 distinct excited energies, or T within a factor "
        "3 of the underflow edge.")
ASSUMPTIONS = ["k_B of the library (0.69503476 cm^-1/K) vs CODATA: populations compared to 1e-6 absolute"]
BUDGET = {"quick": (1500, 110), "thorough": (4000, 700)}

CONDS = ["thermal", "tes_weak", "tes_strong", "impulsive", "thermal_rdm", "tes_strong_rh", "tes_weak_rh"]
WEAK_CUT = 60.0        # 1/cm: couplings below this are left out of the supplied (effective) Hamiltonian
CTXS = ["outside", "eigen", "other", "units-1/cm", "units-eV"]


@st.composite
def _case(draw):
    spec = draw(gens.system_spec(nmin=1, nmax=4, tmin=100, tmax=300, ntmax=60, lam=(5, 200), tauc=(30, 60), spread=600,
                                 jmax=300, emin=800, emax=30000, same_bath=False))
    n = len(spec["E"])
    tcode = draw(st.one_of(st.just(["zero"]), st.tuples(st.just("pow"), st.integers(-30, 40) | st.integers(15, 30)).map(list),
                           st.tuples(st.just("edge"), st.sampled_from([0.3, 0.5, 0.8, 0.95, 1.0, 1.05, 1.3, 2.0, 3.0])).map(list)))
    mode = draw(st.sampled_from([None, None, {"w": draw(st.integers(100, 800)), "hr": draw(st.integers(1, 10)) / 10.0,
                                              "n0": 2, "n1": draw(st.integers(2, 3))}]))
    dim = n + 1
    other = [[0] * dim for _ in range(dim)]
    for i in range(dim):
        for j in range(i, dim):
            other[i][j] = other[j][i] = draw(st.integers(-5, 5))
    cond = draw(st.sampled_from(CONDS))
    if cond == "thermal_rdm" and mode is not None and draw(st.booleans()):
        # a mode displaced already in the electronic ground state, and a very cold environment
        mode = dict(mode, shift0=draw(st.sampled_from([0.5, 1.0, -1.5])))
        spec["T"] = draw(st.sampled_from([0.1, 0.3, 1.0, 5.0, 77.0]))
    if cond == "thermal_rdm" and draw(st.booleans()):
        # molecules whose electronic ground state is not at zero energy (a common shift of all levels of a molecule does
        # not change its equilibrium state), possibly in a cold environment
        spec["ground"] = [draw(st.sampled_from([0, 100, 500, 2000])) for _ in range(n)]
        if draw(st.booleans()):
            spec["T"] = draw(st.sampled_from([0.3, 1.0, 5.0, 77.0]))
    # what the aggregate has been used for before the state is requested (a state is a function of the system and the
    # temperature, not of the aggregate object's history)
    uses = draw(st.lists(st.sampled_from(["diagonalize", "stR", "stR_td", "stR_sec", "stF", "cRF", "redfield_rates"]),
                         max_size=2))
    # a second mode on the second molecule (ground-state vibrational levels of two molecules interleave in energy); an
    # electronic aggregate built with its two-exciton band
    mode2 = None
    if mode is not None and n >= 2 and cond == "thermal" and draw(st.booleans()):
        mode2 = {"w": draw(st.integers(60, 300)), "hr": draw(st.integers(1, 10)) / 10.0, "n0": draw(st.integers(2, 3)), "n1": 2}
    mult = 2 if (mode is None and n >= 2 and cond in ("tes_strong", "tes_weak") and draw(st.sampled_from([False, False, True]))) else 1
    if mult == 2:
        uses = [u for u in uses if u == "diagonalize"]
    return {"spec": spec, "tcode": tcode, "mode": mode, "cond": cond, "ctx": draw(st.sampled_from(CTXS)),
            "other": other, "uses": uses, "mode2": mode2, "mult": mult}


def strategy(tier):
    return _case()


def grid(tier):
    """Deterministic requests on one fixed trimer: every condition x (outside, eigenbasis, units) at two temperatures,
    with the variants that matter (two-exciton band built, modes on two molecules, aggregate diagonalised before)."""
    spec = {"E": [12000, 12250, 12130], "J": [[0, 120, 30], [120, 0, -90], [30, -90, 0]],
            "d": [[1.0, 0.0, 0.0], [0.0, 1.0, 0.0], [0.6, 0.0, 0.8]], "T": 250,
            "bath": [{"ftype": "OverdampedBrownian", "reorg": 40 + 25 * i, "cortime": 40 + 5 * i, "matsubara": 10}
                     for i in range(3)],
            "time": [0.0, 40, 1.0]}
    other = [[((i + 2) * (j + 1)) % 7 - 3 for j in range(4)] for i in range(4)]
    other = [[other[min(i, j)][max(i, j)] for j in range(4)] for i in range(4)]
    m1 = {"w": 300, "hr": 0.4, "n0": 2, "n1": 2}
    m2 = {"w": 170, "hr": 0.3, "n0": 3, "n1": 2}
    # exactly T = 0: the lowest relaxed site (site energy minus reorganisation energy) is not the lowest bare site
    spec0 = dict(spec, E=[12000, 12050, 12300], bath=[dict(spec["bath"][0], reorg=20), dict(spec["bath"][1], reorg=120),
                                                       dict(spec["bath"][2], reorg=40)])
    for cond in ("tes_strong", "tes_weak", "tes_strong_rh", "thermal"):
        for cx in ("outside", "units-1/cm"):
            yield {"spec": spec0, "tcode": ["zero"], "mode": None, "cond": cond, "ctx": cx, "other": other,
                   "uses": [], "mode2": None, "mult": 1}
    for cx in ("outside", "units-1/cm"):
        for mode in (None, m1, dict(m1, shift0=0.8)):
            yield {"spec": spec, "tcode": ["pow", 25], "mode": mode, "cond": "thermal_rdm", "ctx": cx, "other": other,
                   "uses": [], "mode2": None, "mult": 1}
    for tcode in (["pow", 25], ["pow", 19]):
        for cx in ("outside", "eigen", "units-1/cm"):
            for cond in ("thermal", "tes_weak", "tes_strong", "tes_strong_rh", "tes_weak_rh", "impulsive"):
                for mult in ((1, 2) if cond in ("tes_weak", "tes_strong") else (1,)):
                    for uses in ([], ["diagonalize"]):
                        yield {"spec": spec, "tcode": tcode, "mode": None, "cond": cond, "ctx": cx, "other": other,
                               "uses": uses, "mode2": None, "mult": mult}
            # tensors built from the aggregate before the request
            for u in ("stR", "stR_td", "stR_sec", "stF", "cRF", "redfield_rates"):
                for cond in ("tes_weak", "tes_strong"):
                    yield {"spec": spec, "tcode": tcode, "mode": None, "cond": cond, "ctx": cx, "other": other,
                           "uses": [u], "mode2": None, "mult": 1}
            for uses in ([], ["diagonalize"]):
                yield {"spec": spec, "tcode": tcode, "mode": m1, "cond": "thermal", "ctx": cx, "other": other,
                       "uses": uses, "mode2": m2, "mult": 1}
                yield {"spec": spec, "tcode": tcode, "mode": m1, "cond": "tes_strong", "ctx": "outside", "other": other,
                       "uses": uses, "mode2": None, "mult": 1}


def _temperature(case):
    spec = case["spec"]
    emin = min(spec["E"]) * orc.CM2INT
    tedge = emin / (745.0 * orc.KB_INT)        # exp(-E/kT) underflows to 0 below this temperature
    tc = case["tcode"]
    if tc[0] == "zero":
        return 0.0, tedge
    if tc[0] == "pow":
        return 10.0 ** (tc[1] / 10.0), tedge
    return tedge * tc[1], tedge


def _make(qr, case):
    spec = case["spec"]
    agg = gens.make_aggregate(qr, spec, build=False)
    if case["mode"]:
        md = case["mode"]
        with qr.energy_units("1/cm"):
            mode = qr.Mode(float(md["w"]))
            agg.monomers[0].add_Mode(mode)
            mode.set_nmax(0, md["n0"]); mode.set_nmax(1, md["n1"]); mode.set_HR(1, md["hr"])
            if md.get("shift0"):
                mode.set_shift(0, float(md["shift0"]))
    if case.get("mode2"):
        md = case["mode2"]
        with qr.energy_units("1/cm"):
            mode = qr.Mode(float(md["w"]))
            agg.monomers[1].add_Mode(mode)
            mode.set_nmax(0, md["n0"]); mode.set_nmax(1, md["n1"]); mode.set_HR(1, md["hr"])
    agg.build(mult=case.get("mult", 1))
    t0, nt, dt = spec["time"]
    for u in case.get("uses", []):
        if case["mode"] and u in ("stF", "cRF"):
            continue            # Foerster-type tensors of vibronic aggregates are not available (IndexError)
        if u == "diagonalize":
            agg.diagonalize()
        elif u == "redfield_rates":
            agg.get_RedfieldRateMatrix()
        elif u == "cRF":
            with qr.energy_units("1/cm"):
                agg.get_RelaxationTensor(qr.TimeAxis(t0, int(nt), dt), relaxation_theory="combined_RedfieldFoerster",
                                         coupling_cutoff=50.0)
        else:
            agg.get_RelaxationTensor(qr.TimeAxis(t0, int(nt), dt),
                                     relaxation_theory="standard_Foerster" if u == "stF" else "standard_Redfield",
                                     time_dependent=(u == "stR_td"), secular_relaxation=(u == "stR_sec"))
    return agg


def _effective_hamiltonian(qr, case):
    """the aggregate's Hamiltonian with the weak couplings left out, as a separate object (made outside any context)"""
    with qr.energy_units("int"):
        Hs = numpy.array(_make(qr, dict(case, uses=[])).get_Hamiltonian().data, dtype=float)
    off = ~numpy.eye(Hs.shape[0], dtype=bool)
    Hs[off & (numpy.abs(Hs) < WEAK_CUT * orc.CM2INT)] = 0.0
    with qr.energy_units("int"):
        return qr.Hamiltonian(data=Hs)


def _request(qr, agg, cond, T, heff=None):
    if cond == "thermal":
        return agg.get_DensityMatrix(condition_type="thermal", temperature=T)
    if cond == "tes_weak":
        return agg.get_DensityMatrix(condition_type="thermal_excited_state", relaxation_theory_limit="weak_coupling",
                                     temperature=T)
    if cond == "tes_strong":
        return agg.get_DensityMatrix(condition_type="thermal_excited_state", relaxation_theory_limit="strong_coupling",
                                     temperature=T)
    if cond == "tes_strong_rh":
        # the caller supplies the Hamiltonian whose site energies define the equilibrium ("already void of
        # reorganisation energies")
        return agg.get_DensityMatrix(condition_type="thermal_excited_state", relaxation_theory_limit="strong_coupling",
                                     temperature=T, relaxation_hamiltonian=agg.get_Hamiltonian())
    if cond == "tes_weak_rh":
        # the caller supplies an effective Hamiltonian (weak couplings left out, as in combined theories): the canonical
        # state in *its* eigenbasis
        return agg.get_DensityMatrix(condition_type="thermal_excited_state", relaxation_theory_limit="weak_coupling",
                                     temperature=T, relaxation_hamiltonian=heff)
    if cond == "impulsive":
        return agg.get_DensityMatrix(condition_type="impulsive_excitation", temperature=T)
    raise ValueError(cond)


def _valid(ctx, rho, tag, unit_trace):
    if not numpy.all(numpy.isfinite(rho)):
        ctx.fail("finite", tag)
        return False
    sc = max(1.0, float(numpy.max(numpy.abs(rho))))
    ctx.close("hermitian", rho, rho.conj().T, rtol=1e-10, scale=sc, where=tag)
    lmin = float(numpy.min(numpy.linalg.eigvalsh(0.5 * (rho + rho.conj().T))))
    ctx.bound("positive-semidefinite", max(0.0, -lmin), 1e-12 * sc, where=tag)
    if unit_trace:
        ctx.close("unit-trace", numpy.trace(rho).real, 1.0, rtol=1e-10, where=tag)
    return True


def check_case(case, ctx):
    import quantarhei as qr
    from quantarhei.qm import SelfAdjointOperator
    spec, cond, where_ctx = case["spec"], case["cond"], case["ctx"]
    n = len(spec["E"])
    T, tedge = _temperature(case)
    kT = orc.KB_INT * T
    tag = cond + "/" + where_ctx
    near = T > 0 and tedge / 3.0 <= T <= 3.0 * tedge
    ctx.label(cond, where_ctx, "used:" + ("+".join(case.get("uses", [])) or "fresh"), "T=0" if T == 0 else ("near-underflow-edge" if near else ("T<edge" if T < tedge else "T>edge")),
              "modes" if case["mode"] else "electronic")

    if cond == "thermal_rdm":
        return _thermal_rdm(case, ctx, qr, T)

    # ---- reference request outside any context -------------------------------------------------------
    ok, agg0 = guarded(ctx, "build", lambda: _make(qr, case))
    if not ok:
        return
    ok, ref = guarded(ctx, "request", lambda: numpy.array(_request(qr, agg0, cond, T,
                                                                  heff=_effective_hamiltonian(qr, case)
                                                                  if cond == "tes_weak_rh" else None).data),
                      cond + "/outside" + ("/vibronic" if case["mode"] else ""), T=T)
    if not ok:
        return
    dimtot = ref.shape[0]
    nb0 = int(agg0.Nb[0])
    _valid(ctx, ref, cond + "/outside", unit_trace=(cond != "impulsive"))

    # ---- Boltzmann populations in the defining basis ------------------------------------------------------
    electronic = case["mode"] is None
    distinct = False
    lowest_degenerate = False
    if numpy.all(numpy.isfinite(ref)):
        if cond == "thermal" and electronic:
            E = numpy.array([0.0] + [e * orc.CM2INT for e in spec["E"]])
            _boltz(ctx, numpy.real(numpy.diag(ref)), E, T, kT, "thermal/site-basis")
            ctx.bound("off-diagonal-zero", float(numpy.max(numpy.abs(ref - numpy.diag(numpy.diag(ref))))), 1e-12,
                      where="thermal")
        elif cond == "thermal" and not electronic:
            # vibronic aggregate: Boltzmann populations of all levels in the site basis (at optical energies only the
            # uncoupled vibrational levels of the electronic ground state count); energies from an aggregate object
            # without history
            with qr.energy_units("int"):
                Hd = numpy.real(numpy.diag(numpy.array(_make(qr, dict(case, uses=[])).get_Hamiltonian().data)))
            pops = numpy.real(numpy.diag(ref))
            # (the thermal state of the whole system: all levels, weighted by their site-basis energies)
            _boltz(ctx, pops, Hd, T, kT, "thermal/vibronic-site-basis")
            if case.get("mode2"):
                ctx.label("thermal:modes-on-two-molecules")
        elif cond == "tes_weak_rh":
            with qr.energy_units("int"):
                Hs = numpy.array(_make(qr, dict(case, uses=[])).get_Hamiltonian().data, dtype=float)
            off = ~numpy.eye(Hs.shape[0], dtype=bool)
            changed = bool(numpy.any(off & (numpy.abs(Hs) < WEAK_CUT * orc.CM2INT) & (Hs != 0.0)))
            Hs[off & (numpy.abs(Hs) < WEAK_CUT * orc.CM2INT)] = 0.0
            ev, S = numpy.linalg.eigh(Hs)
            rho_ex = S.T @ ref @ S
            E = ev[nb0:]
            distinct = len(set(numpy.round(E, 9))) >= 2
            lowest_degenerate = len(E) > 1 and float(numpy.sort(E)[1] - numpy.sort(E)[0]) < 1e-9
            pops = numpy.real(numpy.diag(rho_ex))
            ctx.label("weak/supplied-hamiltonian:" + ("differs" if changed else "same-as-own"))
            ctx.bound("ground-state-empty", float(numpy.max(numpy.abs(pops[:nb0]))), 1e-10, where=tag)
            _boltz(ctx, pops[nb0:], E, T, kT, "weak/eigenbasis-of-supplied-hamiltonian")
            gaps = numpy.diff(E)
            if len(gaps) == 0 or numpy.min(gaps) > 1e-6:
                ctx.bound("off-diagonal-zero", float(numpy.max(numpy.abs(rho_ex - numpy.diag(numpy.diag(rho_ex))))), 1e-9,
                          where="weak/eigenbasis-of-supplied-hamiltonian")
        elif cond == "tes_strong" and electronic:
            E = numpy.array([(spec["E"][i] - spec["bath"][i]["reorg"]) * orc.CM2INT for i in range(n)])
            if case.get("mult", 1) == 2:
                # states of the two-exciton band follow in the list of excited states (their share is below 1e-20)
                E = numpy.concatenate([E, [(spec["E"][i] + spec["E"][j]) * orc.CM2INT for i in range(n)
                                           for j in range(i + 1, n)]])
                ctx.label("strong:two-exciton-band-built")
            distinct = len(set(numpy.round(E, 9))) >= 2
            lowest_degenerate = len(E) > 1 and float(numpy.sort(numpy.asarray(E, dtype=float))[1]
                                                   - numpy.sort(numpy.asarray(E, dtype=float))[0]) < 1e-9
            pops = numpy.real(numpy.diag(ref))
            ctx.bound("ground-state-empty", abs(pops[0]), 1e-12, where=tag)
            _boltz(ctx, pops[1:], E, T, kT, "strong/site-basis")
            ctx.bound("off-diagonal-zero", float(numpy.max(numpy.abs(ref - numpy.diag(numpy.diag(ref))))), 1e-12,
                      where="strong")
        elif cond == "tes_strong_rh" and electronic:
            # supplied Hamiltonian: Boltzmann in its own site energies, no reorganisation energies subtracted
            E = numpy.array([spec["E"][i] * orc.CM2INT for i in range(n)])
            distinct = len(set(numpy.round(E, 9))) >= 2
            lowest_degenerate = len(E) > 1 and float(numpy.sort(E)[1] - numpy.sort(E)[0]) < 1e-9
            pops = numpy.real(numpy.diag(ref))
            ctx.bound("ground-state-empty", abs(pops[0]), 1e-12, where=tag)
            _boltz(ctx, pops[1:], E, T, kT, "strong/supplied-hamiltonian")
        elif cond == "tes_strong" and not electronic:
            # vibronic aggregate: every state of the one-exciton band carries the reorganisation energy of its site
            with qr.energy_units("int"):
                Hd = numpy.real(numpy.diag(numpy.array(agg0.get_Hamiltonian().data)))
            E = []
            for a in range(nb0, nb0 + int(agg0.Nb[1])):
                elsig = tuple(int(x) for x in agg0.vibsigs[a][0])
                site = elsig.index(1)
                E.append(Hd[a] - spec["bath"][site]["reorg"] * orc.CM2INT)
            E = numpy.array(E)
            distinct = len(set(numpy.round(E, 9))) >= 2
            lowest_degenerate = len(E) > 1 and float(numpy.sort(numpy.asarray(E, dtype=float))[1]
                                                   - numpy.sort(numpy.asarray(E, dtype=float))[0]) < 1e-9
            pops = numpy.real(numpy.diag(ref))
            ctx.bound("ground-state-empty", float(numpy.max(numpy.abs(pops[:nb0]))), 1e-12, where=tag)
            _boltz(ctx, pops[nb0:nb0 + len(E)], E, T, kT, "strong/vibronic-site-basis")
        elif cond == "tes_weak":
            # the returned object, presented in the exciton basis
            with qr.energy_units("int"):
                Hm = numpy.array(agg0.get_Hamiltonian().data, dtype=float)
            ev, S = numpy.linalg.eigh(Hm)
            rho_ex = S.T @ ref @ S
            E = ev[nb0:]
            distinct = len(set(numpy.round(E, 9))) >= 2
            lowest_degenerate = len(E) > 1 and float(numpy.sort(numpy.asarray(E, dtype=float))[1]
                                                   - numpy.sort(numpy.asarray(E, dtype=float))[0]) < 1e-9
            pops = numpy.real(numpy.diag(rho_ex))
            ctx.bound("ground-state-empty", float(numpy.max(numpy.abs(pops[:nb0]))), 1e-10, where=tag)
            _boltz(ctx, pops[nb0:], E, T, kT, "weak/exciton-basis")
            gaps = numpy.diff(E)
            if len(gaps) == 0 or numpy.min(gaps) > 1e-6:
                ctx.bound("off-diagonal-zero", float(numpy.max(numpy.abs(rho_ex - numpy.diag(numpy.diag(rho_ex))))), 1e-9,
                          where="weak/exciton-basis")
    ctx.mark_nontrivial((T > 0 and distinct) or near)

    # ---- the same request from inside a context --------------------------------------------------------------
    if where_ctx != "outside":
        def inside():
            agg = _make(qr, case)
            heff = _effective_hamiltonian(qr, case) if cond == "tes_weak_rh" else None
            if where_ctx.startswith("units-"):
                # requested while other energy units are current: the same state
                with qr.energy_units(where_ctx[6:]):
                    rho = _request(qr, agg, cond, T, heff=heff)
                return numpy.array(rho.data)
            if where_ctx == "eigen":
                op = agg.get_Hamiltonian()
            else:
                M = numpy.zeros((dimtot, dimtot))
                k = len(case["other"])
                for i in range(dimtot):
                    for j in range(dimtot):
                        M[i, j] = case["other"][i % k][j % k] if i <= j else case["other"][j % k][i % k]
                op = SelfAdjointOperator(data=M)
            with qr.eigenbasis_of(op):
                rho = _request(qr, agg, cond, T, heff=heff)
            return numpy.array(rho.data)          # read after the context is closed
        ok, got = guarded(ctx, "request", inside, tag + ("/vibronic" if case["mode"] else ""), T=T)
        if ok and numpy.all(numpy.isfinite(ref)):
            if not numpy.all(numpy.isfinite(got)):
                ctx.fail("finite", tag)
            else:
                _valid(ctx, got, tag, unit_trace=(cond != "impulsive"))
                # (at T = 0 with a degenerate lowest level "the" state is not unique: any state of the degenerate
                # subspace is a valid answer and which one comes out depends on the basis the eigensolver picks)
                if where_ctx.startswith("units-"):
                    if not (T == 0.0 and lowest_degenerate):
                        ctx.close("same-state-in-any-units-context", got, ref, rtol=0, atol=1e-9, where=cond, T=T)
                elif cond == "thermal" and where_ctx == "eigen" and _excited_states_matter(spec, T, kT):
                    # thermally populated excited states: their populations follow the diagonal of the Hamiltonian in
                    # the basis of the request (site energies outside, exciton energies in the eigenbasis) - the two
                    # requests then differ by construction, nothing to compare
                    ctx.label("thermal/eigen:excited-states-populated-not-compared")
                elif cond in ("tes_weak", "tes_strong", "thermal", "tes_weak_rh") and not (T == 0.0 and lowest_degenerate):
                    ctx.close("same-state-inside-and-outside", got, ref, rtol=0, atol=1e-9, where=tag, T=T)


def _excited_states_matter(spec, T, kT):
    """whether excited levels carry thermal weight (or, at T = 0, an exciton lies at or below the ground state): the
    state then depends on whether site or exciton energies are used"""
    emin = float(numpy.min(numpy.linalg.eigvalsh(gens.site_hamiltonian_int(spec)[1:, 1:])))
    emin = min(emin, min(spec["E"]) * orc.CM2INT)
    if T == 0.0:
        return emin <= 1e-9
    return emin <= 0.0 or math.exp(-emin / kT) > 1e-13


def _boltz(ctx, pops, E, T, kT, where):
    E = numpy.asarray(E, dtype=float)
    if T == 0.0:
        srt = numpy.sort(E)
        if len(E) > 1 and srt[1] - srt[0] < 1e-9:
            return
        want = numpy.zeros(len(E)); want[int(numpy.argmin(E))] = 1.0
    else:
        want = orc.softmax_neg(E / kT)
    ctx.close("boltzmann-populations", pops, want, rtol=0, atol=1e-6, where=where, T=T)


def _thermal_rdm(case, ctx, qr, T):
    """Molecule / aggregate get_thermal_ReducedDensityMatrix at the temperature of the environment"""
    spec = case["spec"]
    Tenv = float(spec["T"])
    ctx.mark_nontrivial(case["mode"] is not None)

    units = case["ctx"][len("units-"):] if case["ctx"].startswith("units-") else None
    if units:
        ctx.label("requested-in-units:" + units)
    if spec.get("ground") and any(spec["ground"]):
        ctx.label("thermal_rdm:ground-energy-nonzero", "T=%g" % Tenv)

    def run():
        agg = _make(qr, case)
        mol = agg.monomers[0]
        if units:
            # the caller asks while other energy units are current
            with qr.energy_units(units):
                rm = numpy.array(mol.get_thermal_ReducedDensityMatrix().data)
                ra = numpy.array(agg.get_thermal_ReducedDensityMatrix().data)
        else:
            rm = numpy.array(mol.get_thermal_ReducedDensityMatrix().data)
            ra = numpy.array(agg.get_thermal_ReducedDensityMatrix().data)
        with qr.energy_units("int"):
            Hm = numpy.array(mol.get_Hamiltonian().data, dtype=float)
        with qr.energy_units("int"):
            Ha = numpy.array(agg.get_Hamiltonian().data, dtype=float)
        return rm, Hm, ra, Ha
    ok, r = guarded(ctx, "request", run, "thermal_rdm")
    if not ok:
        return
    # ---- molecules with a history of environments, and molecules without any bath (T = 0) -------------------------
    def three_level():
        with qr.energy_units("1/cm"):
            m = qr.Molecule([0.0, 200.0 + 10.0 * (case["spec"]["E"][0] % 7), 520.0])
            ta = qr.TimeAxis(0.0, 50, 1.0)
            cf = qr.CorrelationFunction(ta, dict(ftype="OverdampedBrownian", reorg=20.0, cortime=50.0, T=float(Tenv),
                                                 matsubara=10))
            m.set_transition_environment((0, 1), cf)
            m.set_transition_environment((0, 2), cf)
            m.unset_transition_environment((0, 2))
        rho = numpy.array(m.get_thermal_ReducedDensityMatrix().data)
        with qr.energy_units("int"):
            Hm = numpy.array(m.get_Hamiltonian().data, dtype=float)
        return rho, Hm, float(m.get_temperature())
    ok, tl = guarded(ctx, "request", three_level, "thermal_rdm/three-level-molecule")
    if ok and _valid(ctx, tl[0], "thermal_rdm/three-level-molecule", unit_trace=True):
        ctx.close("molecule-temperature", tl[2], Tenv, rtol=1e-12, where="environment-of-another-transition-removed")
        ctx.close("boltzmann-populations", numpy.real(numpy.diag(tl[0])), orc.softmax_neg(numpy.diag(tl[1]) / (orc.KB_INT * Tenv)),
                  rtol=0, atol=1e-6, where="thermal_rdm/three-level-molecule", T=Tenv)
    if case["mode"] is not None:
        def no_bath():
            md = case["mode"]
            with qr.energy_units("1/cm"):
                m = qr.Molecule([0.0, float(case["spec"]["E"][0])])
                mode = qr.Mode(float(md["w"]))
                m.add_Mode(mode)
                mode.set_nmax(0, md["n0"]); mode.set_nmax(1, md["n1"]); mode.set_HR(1, md["hr"])
                mode.set_shift(0, float(md.get("shift0") or 0.8))
            rho = numpy.array(m.get_thermal_ReducedDensityMatrix().data)
            with qr.energy_units("int"):
                Hm = numpy.array(m.get_Hamiltonian().data, dtype=float)
            return rho, Hm
        ok, nb = guarded(ctx, "request", no_bath, "thermal_rdm/molecule-without-bath")
        if ok and _valid(ctx, nb[0], "thermal_rdm/molecule-without-bath", unit_trace=True):
            # no bath: T = 0, the state is the lowest eigenstate of the molecule's Hamiltonian
            evm, Sm = numpy.linalg.eigh(nb[1])
            if len(evm) < 2 or evm[1] - evm[0] > 1e-9:
                pop = float(numpy.real(Sm[:, 0] @ nb[0] @ Sm[:, 0]))
                ctx.close("boltzmann-populations", pop, 1.0, rtol=0, atol=1e-9, where="thermal_rdm/molecule-without-bath", T=0.0)
    kT = orc.KB_INT * Tenv
    for name, rho, H in (("molecule", r[0], r[1]), ("aggregate", r[2], r[3])):
        if not _valid(ctx, rho, "thermal_rdm/" + name, unit_trace=True):
            continue
        ev, S = numpy.linalg.eigh(H)
        rho_ex = S.T @ rho @ S
        ctx.close("boltzmann-populations", numpy.real(numpy.diag(rho_ex)), orc.softmax_neg(ev / kT), rtol=0, atol=1e-6,
                  where="thermal_rdm/" + name, T=Tenv)
