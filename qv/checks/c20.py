"""C20  Distributed work ranges partition the index range exactly.

Ranks are simulated: the attributes size / rank / parallel_level /
parallel_region of the Manager's DistributedConfiguration are set from the
harness (and restored in `finally`).  Oracle: the definition of an exact
balanced partition of [start, stop).
"""
import sys
import types
import contextlib

import numpy
from hypothesis import strategies as st

from ..core import guarded

ID = "C20"
TECHNIQUE = 'exhaustive enumeration of (size,start,length,rank) + Hypothesis-generated ranges/APIs against the definition of an exact balanced partition; simulated ranks'
LEVEL = '(Reductions also with the library routine called from inside a parallel region of the caller: nothing is redistributed at the second level.) Every (process count, start, length, rank) on a finite grid is enumerated completely and larger configurations are sampled with Hypothesis; blocks from _calculate_ranges and block_distributed_range/list/array (with and without return_index) are compared with the definition of a contiguous, disjoint, balanced cover, and per-rank partial sums are added and compared with the serial result. Later additions: nested regions, preceding loops on a re-used configuration, two-pass all-reduce of the operator-form tensor.'
NOTE = 'Ranks are simulated by setting attributes on the DistributedConfiguration; no real MPI schedule. Beyond the grid the claim is sampled, not exhaustive.'
EXHAUSTIVE = True
RULE = ("grid: every (size, start, length) with size in 1..12 (quick) / 1..32 (thorough), start in -5..40, "
        "length in 0..70, all ranks, through _calculate_ranges (one grid case = one size; its cells are counted in "
        "exhaustive_cells); generated: (api, size<=4096, start, length<=1e7) through _calculate_ranges, "
        "block_distributed_range/list/array (+return_index), and sum-reduction cases (ssRedfieldRateMatrix and the "
        "Redfield tensor assembly executed once per simulated rank, partial results added by the harness). "
        "Non-trivial: size >= 2 and length >= 1 (for reduction cases: size >= 2 and >= 2 bath components).")
ASSUMPTIONS = [
    "ranks are simulated by setting size/rank/parallel_level/parallel_region on the DistributedConfiguration; "
    "no real MPI schedule is exercised (mpi4py is not installed)",
    "the sum reduction itself is numpy addition in the harness; a stub communicator returns each rank's partial result",
]
BUDGET = {"quick": (1500, 60), "thorough": (6000, 400)}

APIS = ["calc", "range", "list", "array", "list_idx", "array_idx", "array2d", "array2d_idx"]


def strategy(tier):
    big = 4096
    rng = st.builds(lambda api, size, start, length, pre: {"kind": "range", "api": api, "size": size,
                                                          "start": start, "length": length, "precall": pre},
                    st.sampled_from(APIS), st.integers(1, big) | st.integers(1, 9),
                    st.integers(-1000, 100000) | st.integers(-3, 12),
                    st.integers(0, 10 ** 7) | st.integers(0, 40) | st.integers(-30, 3), st.booleans())
    # nested: the library routine (which opens its own parallel region) is called from inside a parallel region of the
    # caller - the work is then shared at the caller's level only and every process computes the whole inner result
    ops = st.builds(lambda size, nk, s: {"kind": "reduce_ops", "size": size, "Nk": nk, "salt": s},
                    st.integers(1, 5), st.integers(2, 4), st.integers(0, 99))
    red = st.builds(lambda size, na, nk, s, which, nested: {"kind": "reduce", "size": size, "Na": na, "Nk": nk,
                                                            "salt": s, "which": which, "nested": nested},
                    st.integers(1, 9), st.integers(2, 5), st.integers(1, 8), st.integers(0, 999),
                    st.sampled_from(["rates", "tensor"]), st.booleans())
    return st.one_of(rng, rng, rng, red, ops)


def grid(tier):
    smax = 12 if tier == "quick" else 32
    for s in range(1, smax + 1):
        yield {"kind": "grid", "size": s}


@contextlib.contextmanager
def simulated(size, rank):
    from quantarhei import Manager
    dc = Manager().get_DistributedConfiguration()
    keep = dict(dc.__dict__)
    try:
        dc.size = size
        dc.rank = rank
        dc.parallel_level = 1
        dc.parallel_region = 1
        dc.inparallel = True
        yield dc
    finally:
        dc.__dict__.clear()
        dc.__dict__.update(keep)


def partition_ok(blocks, start, stop):
    """Return None if blocks (list of [lo, hi) per rank) are an exact balanced
    partition of [start, stop), else a reason.  For an empty range every
    block must be empty; where an empty block sits is not observable."""
    if stop <= start:
        # empty (or reversed, hence empty) range: every block must be empty as a range(lo, hi)
        return None if all(hi <= lo for lo, hi in blocks) else "non-empty block for an empty range"
    if blocks[0][0] != start:
        return "first block starts at %d, not %d" % (blocks[0][0], start)
    if blocks[-1][1] != stop:
        return "last block ends at %d, not %d" % (blocks[-1][1], stop)
    lens = []
    for r, (lo, hi) in enumerate(blocks):
        if hi < lo:
            return "rank %d: negative block" % r
        if r + 1 < len(blocks) and blocks[r + 1][0] != hi:
            return "gap/overlap between ranks %d and %d" % (r, r + 1)
        lens.append(hi - lo)
    if max(lens) - min(lens) > 1:
        return "block sizes differ by %d" % (max(lens) - min(lens))
    return None


def _blocks_calc(size, start, stop):
    from quantarhei.core import parallel
    out = []
    for r in range(size):
        cfg = types.SimpleNamespace(size=size, rank=r)
        b = parallel._calculate_ranges(cfg, start, stop)
        out.append((int(b[0]), int(b[1])))
        if [tuple(x) for x in cfg.ranges][r] != out[-1]:
            return None
    return out


def check_case(case, ctx):
    kind = case["kind"]
    if kind == "grid":
        return _grid(case, ctx)
    if kind == "range":
        return _range(case, ctx)
    if kind == "reduce_ops":
        return _reduce_ops(case, ctx)
    return _reduce(case, ctx)


def _grid(case, ctx):
    size = case["size"]
    ctx.label("grid")
    ctx.mark_nontrivial(size >= 2)
    cells = 0
    bad = None
    for start in range(-5, 41):
        for length in range(0, 71):
            cells += size
            blocks = _blocks_calc(size, start, start + length)
            why = "config.ranges inconsistent" if blocks is None else partition_ok(blocks, start, start + length)
            if why and bad is None:
                bad = (start, length, why, blocks)
    if ctx.counting:
        ctx.exhaustive_cells += cells
    if bad:
        start, length, why, blocks = bad
        ctx.fail("partition", "calc/" + ("start0" if start == 0 else "startN"),
                 size=size, start=start, stop=start + length, why=why, blocks=blocks)


def _range(case, ctx):
    from quantarhei.core import parallel
    api, size, start, length = case["api"], case["size"], case["start"], case["length"]
    if api != "calc" and api != "range":
        start = 0
        length = max(0, min(length, 300))
    if api == "range":
        length = min(length, 5000)
    stop = start + length
    ctx.label("api=" + api, "size>=2" if size >= 2 else "size=1",
              "reversed" if length < 0 else ("empty" if length == 0 else ("short" if length < size else "long")))
    ctx.mark_nontrivial(size >= 2 and length >= 1)
    where = api + "/" + ("start0" if start == 0 else "startN")
    if api == "calc":
        # all ranks are computed by one call; probe first, last and two inner ranks fully
        cfg = types.SimpleNamespace(size=size, rank=size - 1)
        parallel._calculate_ranges(cfg, start, stop)
        blocks = [(int(a), int(b)) for a, b in cfg.ranges]
        for r in sorted(set([0, size // 2, size - 1])):
            c2 = types.SimpleNamespace(size=size, rank=r)
            b = parallel._calculate_ranges(c2, start, stop)
            if (int(b[0]), int(b[1])) != blocks[r]:
                ctx.fail("partition", where, size=size, start=start, stop=stop, why="rank result != ranges[rank]")
                return
        why = partition_ok(blocks, start, stop)
        if why:
            ctx.fail("partition", where, size=size, start=start, stop=stop, why=why,
                     blocks=blocks[:6])
        return
    size = min(size, 64)
    # public helpers, one call per simulated rank; expected pieces come from the oracle partition
    got = []
    if api in ("list", "list_idx"):
        data = list(range(100, 100 + length))
    elif api in ("array", "array_idx"):
        data = numpy.arange(100, 100 + length)
    elif api in ("array2d", "array2d_idx"):
        # distributed over the first axis; rows are identified by their first element
        width = 2 + (case["start"] % 4)
        data = numpy.arange(100, 100 + length).reshape(length, 1) + 1000 * numpy.arange(width).reshape(1, width)
    for r in range(size):
        with simulated(size, r):
            if api == "range":
                if case.get("precall"):
                    # an earlier loop of the same length over another index window on the same configuration
                    list(parallel.block_distributed_range(stop, stop + (stop - start)))
                got.append(list(parallel.block_distributed_range(start, stop)))
            elif api == "list":
                got.append(list(parallel.block_distributed_list(data)))
            elif api == "list_idx":
                got.append([(int(i), int(v)) for i, v in parallel.block_distributed_list(data, return_index=True)])
            elif api == "array":
                got.append([int(v) for v in parallel.block_distributed_array(data)])
            elif api == "array2d":
                ok, blk = guarded(ctx, "partition", lambda: parallel.block_distributed_array(data), where, size=size)
                if not ok:
                    return
                got.append([int(row[0]) for row in blk])
            elif api == "array2d_idx":
                ok, blk = guarded(ctx, "partition", lambda: parallel.block_distributed_array(data, return_index=True),
                                  where, size=size)
                if not ok:
                    return
                got.append([(int(i), int(row[0])) for i, row in blk])
            else:
                got.append([(int(i), int(v)) for i, v in parallel.block_distributed_array(data, return_index=True)])
    if api == "range":
        whole = list(range(start, stop))
    elif api in ("list", "array", "array2d"):
        whole = list(range(100, 100 + length))
    else:
        whole = [(i, 100 + i) for i in range(length)]
    flat = [x for piece in got for x in piece]
    lens = [len(p) for p in got]
    if flat != whole:
        ctx.fail("partition", where, size=size, start=start, stop=stop,
                 why="concatenated blocks != requested range", got_len=len(flat), want_len=len(whole),
                 first_blocks=[p[:4] for p in got[:4]])
    elif max(lens) - min(lens) > 1:
        ctx.fail("partition", where, size=size, start=start, stop=stop, why="unbalanced", lens=lens[:10])


class _StubComm(object):
    """Each simulated rank keeps its own partial result; the harness adds them."""

    def Barrier(self):
        pass

    def Allreduce(self, A, B, op=None):
        B[...] = A

    def Reduce(self, A, B, op=None):
        B[...] = A


@contextlib.contextmanager
def simulated_mpi(size, rank):
    from quantarhei import Manager
    dc = Manager().get_DistributedConfiguration()
    keep = dict(dc.__dict__)
    fake = types.ModuleType("mpi4py")
    fake.MPI = types.SimpleNamespace(SUM="sum")
    had = sys.modules.get("mpi4py")
    sys.modules["mpi4py"] = fake
    try:
        dc.have_mpi = True
        dc.size = size
        dc.rank = rank
        dc.comm = _StubComm()
        dc.parallel_level = 0
        dc.parallel_region = 0
        yield dc
    finally:
        dc.__dict__.clear()
        dc.__dict__.update(keep)
        if had is None:
            del sys.modules["mpi4py"]
        else:
            sys.modules["mpi4py"] = had


class _TwoPassComm(object):
    """All-reduce over simulated ranks: in the first pass every rank's contribution is recorded (and handed back
    unreduced), in the second pass every rank receives the sum of the recorded contributions."""

    def __init__(self, store, rank, second):
        self.store, self.rank, self.second, self.k = store, rank, second, 0

    def Barrier(self):
        pass

    def Allreduce(self, A, B, op=None):
        if not self.second:
            self.store.setdefault(self.k, {})[self.rank] = numpy.array(A, copy=True)
            B[...] = A
        else:
            B[...] = sum(self.store[self.k].values())
        self.k += 1

    Reduce = Allreduce


def _reduce_ops(case, ctx):
    """Redfield tensor kept as operators (as_operators=True): every rank must end up with the serial Km, Lm and Ld"""
    import quantarhei as qr
    from quantarhei.qm import RedfieldRelaxationTensor
    from .. import gens
    size, nk, salt = case["size"], case["Nk"], case["salt"]
    ctx.label("reduce/operator-form")
    ctx.mark_nontrivial(size >= 2)
    spec = {"E": [12000 + 37 * ((salt + 3 * i) % 11) for i in range(nk)],
            "J": [[0 if i == j else 20 + 7 * ((i + j + salt) % 5) for j in range(nk)] for i in range(nk)], "T": 300,
            "bath": [{"ftype": "OverdampedBrownian", "reorg": 20 + 5 * i, "cortime": 40 + 10 * i, "matsubara": 5}
                     for i in range(nk)], "time": [0.0, 40, 2.0]}

    def build():
        agg = gens.make_aggregate(qr, spec)
        ham, sbi = agg.get_Hamiltonian(), agg.get_SystemBathInteraction()
        ham.protect_basis()
        try:
            with qr.eigenbasis_of(ham):
                RT = RedfieldRelaxationTensor(ham, sbi, as_operators=True)
        finally:
            ham.unprotect_basis()
        return [numpy.array(RT.Km), numpy.array(RT.Lm), numpy.array(RT.Ld)]
    ok, serial = guarded(ctx, "reduction", build, "operator-form/serial")
    if not ok:
        return
    store = {}
    for second in (False, True):
        for r in range(size):
            with simulated_mpi(size, r) as dc:
                dc.comm = _TwoPassComm(store, r, second)
                ok, got = guarded(ctx, "reduction", build, "operator-form/rank")
            if not ok:
                return
            if second:
                for name, a, b in zip(("Km", "Lm", "Ld"), got, serial):
                    ctx.close("reduction", a, b, rtol=1e-10, scale=max(1e-300, float(numpy.max(numpy.abs(b)))),
                              where="operator-form/" + name, size=size, rank=r, Nk=nk)


def _ints(n, salt, mod=7):
    # deterministic small integers derived from the case (no RNG)
    return numpy.array([((i * 2654435761 + salt * 40503 + 12345) >> 7) % mod for i in range(n)], dtype=float)


def _reduce(case, ctx):
    size, Na, Nk, salt = case["size"], case["Na"], case["Nk"], case["salt"]
    ctx.label("reduce/" + case["which"])
    ctx.mark_nontrivial(size >= 2 and Nk >= 2)
    if case["which"] == "rates":
        from quantarhei.implementations.python.redfieldrates import ssRedfieldRateMatrix
        KI = _ints(Nk * Na * Na, salt).reshape(Nk, Na, Na)
        KI = KI + KI.transpose(0, 2, 1)
        cc = 1.0 + _ints(Nk * Na * Na, salt + 1).reshape(Nk, Na, Na)

        def run():
            RR = numpy.zeros((Na, Na))
            ssRedfieldRateMatrix(Na, Nk, KI, cc, 1e-10, numpy.zeros(2), RR)
            return RR
    else:
        from quantarhei.qm.liouvillespace import redfieldtensor as rt
        Km = _ints(Nk * Na * Na, salt).reshape(Nk, Na, Na)
        Km = Km + Km.transpose(0, 2, 1)
        Lm = (_ints(Nk * Na * Na, salt + 1).reshape(Nk, Na, Na)
              + 1j * _ints(Nk * Na * Na, salt + 2).reshape(Nk, Na, Na))
        Ld = numpy.conj(Lm.transpose(0, 2, 1)).copy()
        stub = types.SimpleNamespace(Hamiltonian=types.SimpleNamespace(data=numpy.zeros((Na, Na))),
                                     SystemBathInteraction=types.SimpleNamespace(N=Nk))

        def run():
            return rt.RedfieldRelaxationTensor._convert_operators_2_tensor(stub, Km, Lm, Ld)
    serial = run()
    if case.get("nested"):
        ctx.label("nested-region")
        from quantarhei.core import parallel
        for r in range(size):
            with simulated_mpi(size, r) as dc:
                dc.start_parallel_region()
                try:
                    inner_range = list(parallel.block_distributed_range(3, 3 + Nk))
                    inner = run()
                finally:
                    dc.finish_parallel_region()
            # (the helper used directly at the caller's level shares the work ...)
            if size > 1 and len(inner_range) >= Nk and Nk >= size:
                ctx.fail("partition", "nested/outer-level-not-shared", size=size, rank=r, Nk=Nk)
                return
            # (... and inside the routine's own region nothing is shared again)
            ctx.close("reduction", inner, serial, where=case["which"] + "/nested", size=size, Nk=Nk, rank=r)
        return
    total = numpy.zeros_like(serial)
    for r in range(size):
        with simulated_mpi(size, r):
            total = total + run()
    ctx.close("reduction", total, serial, where=case["which"], size=size, Nk=Nk)
