"""C05  Energy-units management is transparent and contexts restore units.

Three generated dimensions:
  (a) matrix: accessor x unit-in x unit-out x value   - oracle: typed-in SI/CODATA conversion factors
  (b) program: nested units contexts with exceptional exits - oracle: a stack model
  (c) call: public library call x active unit         - oracle: units before == units after
"""
import numpy
from hypothesis import strategies as st

from .. import oracles as orc
from .. import gens
from ..core import guarded, HarnessError

ID = "C05"
TECHNIQUE = ("Hypothesis-generated (accessor, unit pair, value) cells against typed-in SI conversion factors; generated "
             "programs of nested units contexts with exceptions against a stack model; generated (library call, "
             "active unit) pairs with a before/after comparison of the Manager's current units")
LEVEL = ("(Registry of 26 accessors incl. widths, diabatic/adiabatic couplings, coupling cut-off, exciton state energies, calculator RWA, correlation-function matrix, hierarchy, diagonalize; context objects created in advance and entered later.) (a) for a hand-enumerated registry of units-managed setters/getters a value supplied under one unit and read "
         "under another must equal the exact conversion (1e-7 relative) and the stored internal value must not depend "
         "on the units of the supplying context; (b) programs of nested energy/frequency/length contexts, with private "
         "exceptions unwound through one or more levels, must restore the current units of every type and the context "
         "flags after each exit; (c) each of ~40 public builder/calculator calls (including calls that raise) is made "
         "inside a generated units context and must leave the caller's units unchanged."
         " Later additions: accessors remove_cutoff_coupling, aggregate transitions (also in nm), FrequencyAxis.copy, the transition-width getter (open finding).")
NOTE = ("The accessor and call registries are hand-enumerated from the code: an accessor or a leaking call that is not "
        "in the registry is not seen. 'nm' (reciprocal) is generated only for positive scalars/arrays where the "
        "conversion functions document it. Python lists are not generated (the conversion functions multiply by a float).")
RULE = ("kind matrix: accessor id, u1, u2 from the ten multiplicative energy units (+nm where allowed), integer-lattice "
        "values; kind program: tree of {enter units context, raise, leave}; kind call: call id, unit, small generated "
        "system. Non-trivial: matrix: u1 != u2 and both differ from internal; program: depth >= 2 or an exception; "
        "call: unit differs from the internal unit and the call returned or raised as designed.")
ASSUMPTIONS = [
    "oracle conversion factors are SI-2019 exact constants and CODATA-2018 Hartree; agreement required to 1e-7 relative",
    "a call that raises is still required to leave the units unchanged",
]
BUDGET = {"quick": (900, 90), "thorough": (4000, 700)}

MUNITS = ["int", "1/fs", "1/cm", "THz", "eV", "meV", "J", "SI", "Ha", "a.u."]
FUNITS = ["1/fs", "int", "1/cm", "THz", "Ha", "a.u."]          # frequency units with an energy twin
LUNITS = ["int", "A", "nm", "Bohr", "a.u.", "m", "SI"]

ACCESSORS = ["convert", "convert_array", "manager", "manager_nm", "hamiltonian", "freqaxis", "molecule_ctor",
             "molecule_set", "mode_ctor", "mode_set", "coupling", "coupling_matrix", "corfce_reorg", "specdens_reorg",
             "agg_hamiltonian", "rwa_skeleton", "freqaxis_to_timeaxis", "length", "transition_width",
             "diabatic_coupling", "adiabatic_coupling", "cutoff_coupling", "state_energy", "abs_rwa", "cfm_reorg",
             "hierarchy_lam", "ham_diagonalize", "corfce_values_reorg", "cfm_direct", "undiagonalize_remainder",
             "specdens_copy", "remove_cutoff", "agg_transition", "freqaxis_copy"]

CALLS = ["build1", "build2", "build_modes", "rebuild", "diagonalize", "build_raises", "mol_hamiltonian", "mol_dipole",
         "mol_sbi", "rt_stR", "rt_stR_td", "rt_stF", "rt_cRF", "rt_unknown_raises", "redfield_rates", "foerster_rates",
         "hierarchy", "hierarchy_prop", "corfce_ctor", "corfce_add", "corfce_ft", "corfce_bad_raises", "specdens",
         "specdens_to_corfce", "abs_calc", "propagate", "eso", "thermal_dm", "excited_dm", "set_rwa", "convert",
         "time_to_freq", "freq_to_time", "ham_bad_raises", "trace_over_vib", "rate_matrix_prop", "dipole_coupling",
         "mol_thermal", "fluor_calc", "lindich_calc", "model_generator", "database_specdens", "exciton_report",
         "pure_dephasing", "dfunction_ft", "sv_propagate", "mol_excited_dm", "save_load", "ham_in_basis",
         "rt_not_implemented_raises"]


@st.composite
def _matrix(draw):
    acc = draw(st.sampled_from(ACCESSORS))
    return {"kind": "matrix", "acc": acc, "u1": draw(st.sampled_from(MUNITS)), "u2": draw(st.sampled_from(MUNITS)),
            "v": draw(st.integers(1, 20000)), "v2": draw(st.integers(-500, 500)),
            "l1": draw(st.sampled_from(LUNITS)), "l2": draw(st.sampled_from(LUNITS)),
            "nm": draw(st.integers(300, 1200))}


def _prog(depth, prefer=None):
    kinds = {"energy": st.tuples(st.just("energy"), st.sampled_from(MUNITS + ["nm"])),
             "frequency": st.tuples(st.just("frequency"), st.sampled_from(FUNITS)),
             "length": st.tuples(st.just("length"), st.sampled_from(LUNITS))}
    unit = st.one_of(kinds["energy"], kinds["frequency"], kinds["length"])
    if prefer is not None:
        # half of the contexts opened inside another one change the same type of units again, sometimes to the very
        # same unit (with pre-created context objects: the same object entered again inside itself)
        unit = st.one_of(kinds[prefer[0]], st.just(prefer), unit, unit)
    leaf = st.one_of(st.just({"s": "probe"}), st.builds(lambda n: {"s": "raise", "levels": n}, st.integers(1, 3)),
                     st.just({"s": "probe"}))
    if depth == 0:
        return st.lists(leaf, max_size=2)
    # "pre": the context-manager object is created once at the start of the program (under the default units) and
    # entered here - the pattern `e_units = qr.energy_units("1/cm") ... with e_units:` of the library's examples
    ctx = unit.flatmap(lambda u: st.builds(
        lambda b, pre: {"s": "ctx", "utype": u[0], "unit": u[1], "body": b, "pre": pre},
        _prog(depth - 1, prefer=(u[0], u[1])), st.sampled_from([False, False, True])))
    return st.lists(st.one_of(ctx, ctx, leaf), min_size=1, max_size=3)


@st.composite
def _program(draw):
    return {"kind": "program", "body": draw(_prog(draw(st.integers(1, 4))))}


@st.composite
def _call(draw):
    spec = draw(gens.system_spec(nmin=2, nmax=3, coupled=True, tmin=100, tmax=300, ntmax=120, lam=(10, 60),
                                 tauc=(30, 60), spread=300, jmax=150))
    return {"kind": "call", "call": draw(st.sampled_from(CALLS)), "u": draw(st.sampled_from(MUNITS[2:] + ["1/cm"])),
            "spec": spec, "outer": draw(st.sampled_from([None, None, "eV", "THz"]))}


def strategy(tier):
    return st.one_of(_matrix(), _matrix(), _program(), _call())


def grid(tier):
    """every accessor and every registered call at a few fixed unit pairs (so that each of them is exercised at every
    seed), before the generated cases"""
    pairs = [("1/cm", "eV"), ("eV", "THz"), ("meV", "1/cm"), ("int", "1/cm")]
    if tier == "thorough":
        pairs = pairs + [("THz", "J"), ("Ha", "meV"), ("1/cm", "int")]
    spec = {"E": [12000, 12300, 12150], "J": [[0, 100, -40], [100, 0, 60], [-40, 60, 0]],
            "d": [[1.0, 0.0, 0.0], [0.0, 1.0, 0.0], [0.5, 0.5, 0.0]], "T": 300,
            "bath": [{"ftype": "OverdampedBrownian", "reorg": 30 + 5 * i, "cortime": 50, "matsubara": 10} for i in range(3)],
            "time": [0.0, 100, 1.0]}
    for call in CALLS:
        for u, outer in (("1/cm", None), ("eV", "THz")):
            yield {"kind": "call", "call": call, "u": u, "spec": spec, "outer": outer}
    for acc in ACCESSORS:
        for k, (u1, u2) in enumerate(pairs):
            yield {"kind": "matrix", "acc": acc, "u1": u1, "u2": u2, "v": 137 + 911 * k, "v2": 41 - 30 * k,
                   "l1": LUNITS[(k + 1) % len(LUNITS)], "l2": LUNITS[(k + 3) % len(LUNITS)], "nm": 400 + 150 * k}


def check_case(case, ctx):
    if case["kind"] == "matrix":
        return _check_matrix(case, ctx)
    if case["kind"] == "program":
        return _check_program(case, ctx)
    return _check_call(case, ctx)


# ---------------------------------------------------------------------------
# (a) conversion matrix
# ---------------------------------------------------------------------------

def _check_matrix(case, ctx):
    import quantarhei as qr
    acc, u1, u2 = case["acc"], case["u1"], case["u2"]
    v = float(case["v"])
    ctx.label("matrix:" + acc)
    internal = ("int", "1/fs")
    ctx.mark_nontrivial(u1 != u2 and u1 not in internal and u2 not in internal)
    m = qr.Manager()
    where = acc

    def expect(val, a=u1, b=u2):
        return orc.convert(val, a, b)

    def cmp(clause, got, want, **kw):
        want = numpy.asarray(want, dtype=float)
        ctx.close(clause, numpy.asarray(got, dtype=float), want, rtol=1e-7, atol=0.0,
                  scale=max(1e-300, float(numpy.max(numpy.abs(want)))), where=where, u1=u1, u2=u2, **kw)

    def run():
        if acc == "convert":
            cmp("conversion", qr.convert(v, u1, to=u2), expect(v))
            with qr.energy_units(u2):
                cmp("conversion", qr.convert(v, u1), expect(v))
        elif acc == "convert_array":
            arr = numpy.array([v, 2 * v, v + case["v2"]], dtype=float)
            cmp("conversion", qr.convert(arr, u1, to=u2), expect(arr))
        elif acc == "manager":
            with qr.energy_units(u1):
                i1 = m.convert_energy_2_internal_u(v)
                ia = m.convert_energy_2_internal_u(numpy.array([v, 3.0 * v]))
            cmp("stored-value", i1, orc.to_internal(v, u1))
            with qr.energy_units(u2):
                cmp("conversion", m.convert_energy_2_current_u(i1), expect(v))
                cmp("conversion", m.convert_energy_2_current_u(ia), expect(numpy.array([v, 3.0 * v])))
        elif acc == "manager_nm":
            lam = float(case["nm"])
            with qr.energy_units("nm"):
                i1 = m.convert_energy_2_internal_u(lam)
                ia = m.convert_energy_2_internal_u(numpy.array([lam, 2 * lam]))
            cmp("stored-value", i1, orc.to_internal(lam, "nm"))
            with qr.energy_units(u2):
                cmp("conversion", m.convert_energy_2_current_u(ia), orc.convert(numpy.array([lam, 2 * lam]), "nm", u2))
            with qr.energy_units(u1):
                i2 = m.convert_energy_2_internal_u(v)
            with qr.energy_units("nm"):
                cmp("conversion", m.convert_energy_2_current_u(i2), orc.convert(v, u1, "nm"))
            cmp("conversion", qr.convert(lam, "nm", to=u2), orc.convert(lam, "nm", u2))
            # wavelengths handed over as an integer array (e.g. numpy.array([500, 600]))
            with qr.energy_units("nm"):
                ii = m.convert_energy_2_internal_u(numpy.array([int(lam), 2 * int(lam)]))
            cmp("stored-value", ii, orc.to_internal(numpy.array([float(int(lam)), 2.0 * int(lam)]), "nm"), what="integer array")
            # arrays read in nm: zero stays zero ("zero is interpreted as zero energy"), every other element - also a
            # negative one such as a resonance coupling - is converted element-wise
            M = numpy.array([[0.0, 0.0, 0.0], [0.0, v, -abs(case["v2"]) - 1.0], [0.0, -abs(case["v2"]) - 1.0, v + 3.0]])
            with qr.energy_units(u1):
                Hn = qr.Hamiltonian(data=M.copy())
            with qr.energy_units("nm"):
                got = numpy.array(Hn.data)
            want = numpy.zeros_like(M)
            nzm = M != 0.0
            want[nzm] = orc.convert(M[nzm], u1, "nm")
            cmp("conversion", got, want, what="Hamiltonian read in nm")
        elif acc == "hamiltonian":
            M = numpy.array([[0.0, case["v2"]], [case["v2"], v]], dtype=float)
            with qr.energy_units(u1):
                H = qr.Hamiltonian(data=M.copy())
            cmp("stored-value", H._data, orc.to_internal(M, u1))
            with qr.energy_units(u2):
                cmp("conversion", H.data, expect(M))
        elif acc == "freqaxis":
            n = 8
            with qr.energy_units(u1):
                fa = qr.FrequencyAxis(v, n, 1.0 + abs(case["v2"]))
            with qr.energy_units(u2):
                cmp("conversion", fa.data, expect(v + numpy.arange(n) * (1.0 + abs(case["v2"]))))
                cmp("conversion", fa.start, expect(v))
                cmp("conversion", fa.step, expect(1.0 + abs(case["v2"])))
        elif acc in ("molecule_ctor", "molecule_set"):
            with qr.energy_units(u1):
                if acc == "molecule_ctor":
                    mol = qr.Molecule([0.0, v])
                else:
                    mol = qr.Molecule([0.0, 1.0])
                    mol.set_energy(1, v)
            cmp("stored-value", mol.elenergies[1], orc.to_internal(v, u1))
            with qr.energy_units(u2):
                cmp("conversion", mol.get_energy(1), expect(v))
        elif acc in ("mode_ctor", "mode_set"):
            mol = qr.Molecule([0.0, 1.0])
            with qr.energy_units(u1):
                if acc == "mode_ctor":
                    md = qr.Mode(v)
                    mol.add_Mode(md)
                else:
                    md = qr.Mode(1.0)
                    mol.add_Mode(md)
                    md.set_energy(1, v)
            with qr.energy_units(u2):
                cmp("conversion", md.get_energy(1 if acc == "mode_set" else 0, no_conversion=False), expect(v))
        elif acc in ("coupling", "coupling_matrix"):
            agg = qr.Aggregate(molecules=[qr.Molecule([0.0, 1.0]), qr.Molecule([0.0, 1.1])])
            J = float(case["v2"])
            with qr.energy_units(u1):
                if acc == "coupling":
                    agg.set_resonance_coupling(0, 1, J)
                else:
                    agg.set_resonance_coupling_matrix(numpy.array([[0.0, J], [J, 0.0]]))
            cmp("stored-value", agg.resonance_coupling[0, 1], orc.to_internal(J, u1))
            with qr.energy_units(u2):
                cmp("conversion", agg.get_resonance_coupling(1, 0), expect(J))
        elif acc in ("corfce_reorg", "specdens_reorg"):
            ta = qr.TimeAxis(0.0, 60, 2.0)
            lam = float(1 + case["v"] % 300)
            params = dict(ftype="OverdampedBrownian", reorg=lam, cortime=50.0, T=300.0, matsubara=5)
            with qr.energy_units(u1):
                f = qr.CorrelationFunction(ta, params) if acc == "corfce_reorg" else qr.SpectralDensity(ta, params)
            cmp("stored-value", f.lamb, orc.to_internal(lam, u1))
            with qr.energy_units(u2):
                cmp("conversion", f.get_reorganization_energy(), orc.convert(lam, u1, u2))
        elif acc == "agg_hamiltonian":
            with qr.energy_units(u1):
                m1, m2 = qr.Molecule([0.0, v]), qr.Molecule([0.0, v + 7.0])
                agg = qr.Aggregate(molecules=[m1, m2])
                agg.set_resonance_coupling(0, 1, float(case["v2"]))
                agg.build()
                # still inside the supplying context: values come back in the units they were given in
                cmp("readback-in-context", agg.get_Hamiltonian().data[2, 2], v + 7.0)
            with qr.energy_units(u2):
                Hd = agg.get_Hamiltonian().data
            cmp("conversion", [Hd[1, 1], Hd[2, 2], Hd[1, 2]], expect(numpy.array([v, v + 7.0, float(case["v2"])])))
        elif acc == "rwa_skeleton":
            M = numpy.array([[0.0, 0.0, 0.0], [0.0, v, 1.0], [0.0, 1.0, v + 4.0]])
            with qr.energy_units(u1):
                H = qr.Hamiltonian(data=M.copy())
                H.set_rwa([0, 1])
            with qr.energy_units(u2):
                cmp("conversion", H.get_RWA_skeleton(), expect(numpy.array([0.0, v + 2.0, v + 2.0])))
        elif acc == "freqaxis_to_timeaxis":
            # an optical window (centre != 0): the derived TimeAxis must not depend on the active units
            n = 2 * (4 + case["v"] % 5)
            with qr.energy_units(u1):
                fa = qr.FrequencyAxis(v, n, 5.0 + abs(case["v2"]) % 50, atype="complete")
            ref = fa.get_TimeAxis()
            with qr.energy_units(u2):
                ta = fa.get_TimeAxis()
                back = ta.get_FrequencyAxis()
            cmp("stored-value", [ta.start, ta.step, ta.frequency_start], [ref.start, ref.step, ref.frequency_start])
            with qr.energy_units("int"):
                cmp("stored-value", back.data, fa.data)
        elif acc == "transition_width":
            mol = qr.Molecule([0.0, 1.0])
            with qr.energy_units(u1):
                mol.set_transition_width((0, 1), abs(v) + 1.0)
            cmp("stored-value", mol.widths[0, 1], orc.to_internal(abs(v) + 1.0, u1))
            cmp("stored-value", mol.widths[1, 0], orc.to_internal(abs(v) + 1.0, u1))
            # ... and read back through the getter under the second units
            with qr.energy_units(u2):
                got = mol.get_transition_width((0, 1))
            cmp("getter", got, expect(abs(v) + 1.0))
        elif acc == "diabatic_coupling":
            mol = qr.Molecule([0.0, 1.0, 1.2])
            mol.add_Mode(qr.Mode(0.01))
            with qr.energy_units(u1):
                mol.set_diabatic_coupling((1, 2), [v, [1]])
            cmp("stored-value", mol.diabatic_matrix[1][2][0][0], orc.to_internal(v, u1))
            with qr.energy_units(u2):
                got = mol.get_diabatic_coupling((2, 1))
            cmp("conversion", got[0][0], expect(v))
        elif acc == "adiabatic_coupling":
            mol = qr.Molecule([0.0, 1.0, 1.2])
            with qr.energy_units(u1):
                mol.set_adiabatic_coupling(1, 2, v)
            cmp("stored-value", mol.get_adiabatic_coupling(1, 2), orc.to_internal(v, u1))
        elif acc == "cutoff_coupling":
            # couplings 3c (suppressed by c) and c/2 (removed), c given in u1
            c = abs(v) + 1.0
            ci = orc.to_internal(c, u1)
            M = numpy.array([[0.0, 0.0, 0.0, 0.0], [0.0, 1.0, 3 * ci, 0.5 * ci], [0.0, 3 * ci, 1.1, -3 * ci],
                             [0.0, 0.5 * ci, -3 * ci, 1.2]])
            with qr.energy_units("int"):
                H = qr.Hamiltonian(data=M.copy())
            with qr.energy_units(u1):
                H.subtract_cutoff_coupling(c)
            cmp("stored-value", [H._data[1, 2], H._data[1, 3], H._data[2, 3], H._data[3, 2]], [2 * ci, 0.0, -2 * ci, -2 * ci])
            with qr.energy_units(u2):
                H.recover_cutoff_coupling()
            cmp("stored-value", H._data, M)
        elif acc == "remove_cutoff":
            # couplings 2c (kept) and c/2 (removed for good), c given in u1
            c = abs(v) + 1.0
            ci = orc.to_internal(c, u1)
            M = numpy.array([[0.0, 0.0, 0.0, 0.0], [0.0, 1.0, 2 * ci, 0.5 * ci], [0.0, 2 * ci, 1.1, -2 * ci],
                             [0.0, 0.5 * ci, -2 * ci, 1.2]])
            with qr.energy_units("int"):
                H = qr.Hamiltonian(data=M.copy())
            with qr.energy_units(u1):
                H.remove_cutoff_coupling(c)
            W = M.copy()
            W[1, 3] = W[3, 1] = 0.0
            cmp("stored-value", H._data, W)
            with qr.energy_units(u2):
                cmp("conversion", H.data, expect(W, "int", u2))
        elif acc == "agg_transition":
            # transition between two excited states of an uncoupled dimer: the difference of the two site energies
            dv = 7.0 + abs(case["v2"])
            with qr.energy_units(u1):
                m1, m2 = qr.Molecule([0.0, v]), qr.Molecule([0.0, v + dv])
                m1.set_dipole(0, 1, [1.0, 0.0, 0.0])
                m2.set_dipole(0, 1, [0.0, 1.0, 0.0])
                agg = qr.Aggregate(molecules=[m1, m2])
            agg.build()
            with qr.energy_units(u2):
                cmp("conversion", agg.get_transition(2, 1)[0], expect(dv))
                cmp("conversion", agg.get_transition(1, 0)[0], expect(v))
            with qr.energy_units("nm"):
                cmp("conversion", agg.get_transition(2, 1)[0], orc.convert(dv, u1, "nm"), what="nm")
                cmp("conversion", agg.get_transition(2, 0)[0], orc.convert(v + dv, u1, "nm"), what="nm")
        elif acc == "freqaxis_copy":
            n = 8
            st_ = 1.0 + abs(case["v2"])
            with qr.energy_units(u1):
                fa = qr.FrequencyAxis(v, n, st_)
            with qr.energy_units(u2):
                fc = fa.copy()
            cmp("stored-value", [fc._start if hasattr(fc, "_start") else fc.start, fc._step if hasattr(fc, "_step") else fc.step],
                [orc.to_internal(v, u1), orc.to_internal(st_, u1)])
            with qr.energy_units(u2):
                cmp("conversion", fc.data, expect(v + numpy.arange(n) * st_))
        elif acc == "state_energy":
            with qr.energy_units(u1):
                m1, m2 = qr.Molecule([0.0, v]), qr.Molecule([0.0, v + 7.0])
                agg = qr.Aggregate(molecules=[m1, m2])
                agg.set_resonance_coupling(0, 1, float(case["v2"]))
            agg.build()
            agg.diagonalize()
            # all three states are sorted by energy (strong coupling can push an exciton below the ground state)
            ev = numpy.sort(numpy.concatenate([[0.0], numpy.linalg.eigvalsh(
                numpy.array([[v, float(case["v2"])], [float(case["v2"]), v + 7.0]]))]))
            with qr.energy_units(u2):
                got = [agg.get_state_energy(0), agg.get_state_energy(1), agg.get_state_energy(2)]
            cmp("conversion", got, expect(ev))
        elif acc == "abs_rwa":
            ta = qr.TimeAxis(0.0, 50, 2.0)
            with qr.energy_units("1/cm"):
                mol = qr.Molecule([0.0, 12000.0])
                mol.set_transition_environment((0, 1), qr.CorrelationFunction(ta, dict(
                    ftype="OverdampedBrownian", reorg=30.0, cortime=50.0, T=300.0, matsubara=5)))
            calc = qr.AbsSpectrumCalculator(ta, system=mol)
            w = abs(v) + 1.0
            with qr.energy_units(u1):
                calc.bootstrap(rwa=w)
            cmp("stored-value", calc.rwa, orc.to_internal(w, u1))
        elif acc == "cfm_reorg":
            ta = qr.TimeAxis(0.0, 60, 2.0)
            lam = float(1 + case["v"] % 300)
            with qr.energy_units(u1):
                cf = qr.CorrelationFunction(ta, dict(ftype="OverdampedBrownian", reorg=lam, cortime=50.0, T=300.0,
                                                     matsubara=5))
            with qr.energy_units("1/cm"):
                m1, m2 = qr.Molecule([0.0, 12000.0]), qr.Molecule([0.0, 12100.0])
            m1.set_transition_environment((0, 1), cf)
            m2.set_transition_environment((0, 1), cf)
            agg = qr.Aggregate(molecules=[m1, m2])
            agg.build()
            cfm = agg.get_SystemBathInteraction().CC
            with qr.energy_units(u2):
                got = cfm.get_reorganization_energy(0, 0)
            cmp("conversion", got, orc.convert(lam, u1, u2))
        elif acc == "corfce_values_reorg":
            # a correlation function defined by values: its declared reorganisation energy is converted like any other
            ta = qr.TimeAxis(0.0, 60, 2.0)
            lam = float(1 + case["v"] % 300)
            vals = numpy.exp(-numpy.array(ta.data) / 50.0) * (1.0 - 0.5j) * 1e-5
            with qr.energy_units(u1):
                f = qr.CorrelationFunction(ta, dict(ftype="OverdampedBrownian", reorg=lam, cortime=50.0, T=300.0, matsubara=5),
                                           values=vals.copy())
            cmp("stored-value", f.lamb, orc.to_internal(lam, u1))
            with qr.energy_units(u2):
                cmp("conversion", f.get_reorganization_energy(), orc.convert(lam, u1, u2))
        elif acc == "cfm_direct":
            # correlation functions registered in a CorrelationFunctionMatrix while other units are current
            from quantarhei.qm.corfunctions import CorrelationFunctionMatrix
            ta = qr.TimeAxis(0.0, 60, 2.0)
            lam = float(1 + case["v"] % 300)
            with qr.energy_units("1/cm"):
                cfs = [qr.CorrelationFunction(ta, dict(ftype="OverdampedBrownian", reorg=lam + 7.0 * k, cortime=50.0, T=300.0,
                                                       matsubara=5)) for k in range(2)]
            cm = CorrelationFunctionMatrix(ta, 2, 2)
            with qr.energy_units(u1):
                for k in range(2):
                    cm.set_correlation_function(cfs[k], [(k, k)])
            with qr.energy_units(u2):
                got = [cm.get_reorganization_energy(0, 0), cm.get_reorganization_energy(1, 1)]
            cmp("conversion", got, orc.convert(numpy.array([lam, lam + 7.0]), "1/cm", u2))
        elif acc == "undiagonalize_remainder":
            # weak couplings split off, diagonalised and restored with the remainder while other units are current
            c = abs(float(case["v2"])) + 1.0
            M = numpy.array([[0.0, 0.0, 0.0, 0.0], [0.0, v, 3 * c, 0.5 * c], [0.0, 3 * c, v + 5.0, 0.0],
                             [0.0, 0.5 * c, 0.0, v + 9.0]])
            with qr.energy_units(u1):
                H = qr.Hamiltonian(data=M.copy())
                H.remove_cutoff_coupling(c)
            with qr.energy_units(u2):
                H.diagonalize()
                H.undiagonalize(with_remainder=True)
            cmp("stored-value", H._data, orc.to_internal(M, u1))
        elif acc == "specdens_copy":
            ta = qr.TimeAxis(0.0, 60, 2.0)
            lam = float(1 + case["v"] % 300)
            with qr.energy_units("1/cm"):
                f = qr.SpectralDensity(ta, dict(ftype="OverdampedBrownian", reorg=lam, cortime=50.0, T=300.0, matsubara=5))
            with qr.energy_units(u1):
                g = f.copy()
            cmp("stored-value", g.lamb, orc.to_internal(lam, "1/cm"))
            cmp("stored-value", numpy.array(g.data), numpy.array(f.data))
        elif acc == "ham_diagonalize":
            M = numpy.array([[0.0, 0.0, 0.0], [0.0, v, float(case["v2"])], [0.0, float(case["v2"]), v + 5.0]])
            with qr.energy_units(u1):
                H = qr.Hamiltonian(data=M.copy())
            Mi = orc.to_internal(M, u1)
            with qr.energy_units(u2):
                H.diagonalize()
            cmp("stored-value", numpy.sort(numpy.diag(H._data)), numpy.sort(numpy.linalg.eigvalsh(Mi)))
            with qr.energy_units(u1):
                H.undiagonalize()
            cmp("stored-value", H._data, Mi, what="after undiagonalize")
        elif acc == "hierarchy_lam":
            # a hierarchy may be set up while any energy units are current: what it stores is in internal units
            from quantarhei.qm.liouvillespace.heom import KTHierarchy
            ta = qr.TimeAxis(0.0, 40, 2.0)
            lam = float(1 + case["v"] % 200)
            with qr.energy_units("1/cm"):
                mols = []
                for k in range(2):
                    mm = qr.Molecule([0.0, 12000.0 + 100.0 * k])
                    mm.set_transition_environment((0, 1), qr.CorrelationFunction(ta, dict(
                        ftype="OverdampedBrownian", reorg=lam + 5.0 * k, cortime=50.0, T=300.0, matsubara=5)))
                    mols.append(mm)
                agg = qr.Aggregate(molecules=mols)
            agg.build()
            ham, sbi = agg.get_Hamiltonian(), agg.get_SystemBathInteraction()
            ham.set_rwa([0, 1])
            with qr.energy_units(u1):
                hy = KTHierarchy(ham, sbi, 1)
            cmp("stored-value", hy.lam, [orc.to_internal(lam, "1/cm"), orc.to_internal(lam + 5.0, "1/cm")])
        elif acc == "length":
            l1, l2 = case["l1"], case["l2"]
            with qr.length_units(l1):
                i1 = m.convert_length_2_internal_u(v)
            with qr.length_units(l2):
                got = m.convert_length_2_current_u(i1)
            want = v * orc.LENGTH_FACTORS[l1] / orc.LENGTH_FACTORS[l2]
            ctx.close("conversion", got, want, rtol=1e-9, where=where, u1=l1, u2=l2)
        else:
            raise HarnessError("accessor " + acc)
    guarded(ctx, "accessor", run, where, u1=u1, u2=u2)
    _units_default(ctx, qr, "matrix/" + acc)


def _units_default(ctx, qr, where):
    m = qr.Manager()
    cur = {k: m.get_current_units(k) for k in ("energy", "frequency", "length")}
    want = {"energy": "1/fs", "frequency": "1/fs", "length": "A"}
    if cur != want or m._in_energy_units_context or m._in_eu_count != 0:
        ctx.fail("units-restored", where, got=cur, flag=bool(m._in_energy_units_context), count=int(m._in_eu_count))


# ---------------------------------------------------------------------------
# (b) nested contexts with exceptions
# ---------------------------------------------------------------------------

class _Abort(Exception):
    def __init__(self, levels):
        Exception.__init__(self)
        self.levels = levels


def _check_program(case, ctx):
    import quantarhei as qr
    m = qr.Manager()
    stats = {"depth": 0, "exc": 0, "pre": 0}
    factories = {"energy": qr.energy_units, "frequency": getattr(qr, "frequency_units", None), "length": qr.length_units}
    if factories["frequency"] is None:
        from quantarhei.core.managers import frequency_units
        factories["frequency"] = frequency_units

    def snapshot():
        return ({k: m.get_current_units(k) for k in ("energy", "frequency", "length")},
                bool(m._in_energy_units_context), int(m._in_eu_count))

    def run(block, depth, model):
        for stm in block:
            if stm["s"] == "probe":
                got = snapshot()[0]
                if got != model:
                    ctx.fail("inside-units", "depth=%d" % depth, got=got, want=dict(model))
                    raise HarnessError("stop")
            elif stm["s"] == "raise":
                if depth > 0:
                    raise _Abort(stm["levels"])
            else:
                utype, unit = stm["utype"], stm["unit"]
                before = snapshot()
                stats["depth"] = max(stats["depth"], depth + 1)
                inner = dict(model)
                # "frequency" contexts are documented to behave exactly as energy contexts
                inner["energy" if utype == "frequency" else utype] = unit
                pending = None
                key = (utype, unit)
                if stm.get("pre"):
                    # (also when that very object is active already: one object entered again inside itself)
                    if key in active:
                        stats["reentrant"] = stats.get("reentrant", 0) + 1
                    if key not in precreated:
                        raise HarnessError("context object not pre-created")
                    cm = precreated[key]
                    stats["pre"] += 1
                else:
                    cm = factories[utype](unit)
                    key = None
                try:
                    if key:
                        active.append(key)
                    try:
                        with cm:
                            run(stm["body"], depth + 1, inner)
                    finally:
                        if key:
                            active.remove(key)
                except _Abort as e:
                    stats["exc"] += 1
                    if e.levels > 1 and depth > 0:
                        pending = _Abort(e.levels - 1)
                after = snapshot()
                if after != before:
                    ctx.fail("context-restores-units", utype, unit=unit, before=list(before), after=list(after),
                             depth=depth)
                    raise HarnessError("stop")
                if pending:
                    raise pending
    # context objects that the program enters later are created now, under the default units
    precreated, active = {}, []

    def collect(block):
        for stm in block:
            if stm["s"] == "ctx":
                if stm.get("pre") and (stm["utype"], stm["unit"]) not in precreated:
                    precreated[(stm["utype"], stm["unit"])] = factories[stm["utype"]](stm["unit"])
                collect(stm["body"])
    collect(case["body"])
    try:
        run(case["body"], 0, {"energy": "1/fs", "frequency": "1/fs", "length": "A"})
    except HarnessError:
        pass
    except _Abort:
        raise HarnessError("abort escaped")
    except Exception as e:
        ctx.fail("context/raises", exc=type(e).__name__, msg=str(e)[:120])
    ctx.label("program", "pre-created-context-objects" if stats["pre"] else "inline-contexts",
              "re-entrant-context-object" if stats.get("reentrant") else "no-re-entry")
    ctx.mark_nontrivial(stats["depth"] >= 2 or stats["exc"] >= 1)
    _units_default(ctx, qr, "program")


# ---------------------------------------------------------------------------
# (c) calls leave the caller's units alone
# ---------------------------------------------------------------------------

def _check_call(case, ctx):
    import quantarhei as qr
    from quantarhei.qm import ReducedDensityMatrix
    call, u, spec = case["call"], case["u"], case["spec"]
    m = qr.Manager()
    n = len(spec["E"])
    t0, nt, dt = spec["time"]
    ta = qr.TimeAxis(t0, int(nt), dt)
    ctx.label("call:" + call)
    expected_raise = call.endswith("_raises")
    state = {"returned": False, "raised": None}

    # objects the call needs, prepared outside the units context
    try:
        agg = gens.make_aggregate(qr, spec, build=call not in ("build1", "build2", "build_modes", "build_raises"))
        if call == "build_modes":
            with qr.energy_units("1/cm"):
                md = qr.Mode(300.0)
                agg.monomers[0].add_Mode(md)
                md.set_nmax(0, 2); md.set_nmax(1, 2); md.set_HR(1, 0.3)
        if call == "build_raises":
            from quantarhei.qm.corfunctions import CorrelationFunctionMatrix
            cfm = CorrelationFunctionMatrix(ta, n + 1)
            agg.set_egcf_matrix(cfm)
    except Exception as e:
        raise HarnessError("preparation failed: %r" % (e,))

    def body():
        if call == "build1":
            agg.build()
        elif call == "build2":
            agg.build(mult=2)
        elif call == "build_modes":
            agg.build()
        elif call == "rebuild":
            agg.rebuild()
        elif call == "diagonalize":
            agg.diagonalize()
        elif call == "build_raises":
            agg.build()
        elif call == "mol_hamiltonian":
            agg.monomers[0].get_Hamiltonian()
        elif call == "mol_dipole":
            agg.monomers[0].get_TransitionDipoleMoment()
        elif call == "mol_sbi":
            agg.monomers[0].get_SystemBathInteraction()
        elif call == "rt_stR":
            agg.get_RelaxationTensor(ta, relaxation_theory="standard_Redfield", as_operators=True)
        elif call == "rt_stR_td":
            agg.get_RelaxationTensor(ta, relaxation_theory="standard_Redfield", time_dependent=True)
        elif call == "rt_stF":
            agg.get_RelaxationTensor(ta, relaxation_theory="standard_Foerster")
        elif call == "rt_cRF":
            agg.get_RelaxationTensor(ta, relaxation_theory="combined_RedfieldFoerster",
                                     coupling_cutoff=float(orc.convert(40.0, "1/cm", u)))
        elif call == "rt_unknown_raises":
            agg.get_RelaxationTensor(ta, relaxation_theory="no_such_theory")
        elif call == "redfield_rates":
            agg.get_RedfieldRateMatrix()
        elif call == "foerster_rates":
            agg.get_FoersterRateMatrix()
        elif call == "hierarchy":
            agg.get_KTHierarchy(2)
        elif call == "hierarchy_prop":
            agg.get_KTHierarchyPropagator(1)
        elif call in ("corfce_ctor", "corfce_add", "corfce_ft", "specdens", "specdens_to_corfce", "corfce_bad_raises"):
            lam = float(orc.convert(30.0, "1/cm", u))
            p = dict(ftype="OverdampedBrownian", reorg=lam, cortime=50.0, T=300.0, matsubara=5)
            if call == "corfce_bad_raises":
                qr.CorrelationFunction(ta, dict(p, ftype="NoSuchType"))
            elif call == "specdens":
                sd = qr.SpectralDensity(ta, p)
                sd.get_reorganization_energy(); sd.measure_reorganization_energy()
            elif call == "specdens_to_corfce":
                qr.SpectralDensity(ta, p).get_CorrelationFunction(temperature=300.0)
            else:
                cf = qr.CorrelationFunction(ta, p)
                if call == "corfce_add":
                    cf2 = qr.CorrelationFunction(ta, dict(p, cortime=80.0))
                    (cf + cf2).get_reorganization_energy()
                elif call == "corfce_ft":
                    cf.get_FTCorrelationFunction(); cf.get_OddFTCorrelationFunction(); cf.get_SpectralDensity()
                    cf.measure_reorganization_energy()
        elif call == "abs_calc":
            calc = qr.AbsSpectrumCalculator(ta, system=agg)
            calc.bootstrap(rwa=float(orc.convert(numpy.mean(spec["E"]), "1/cm", u)))
            calc.calculate()
        elif call == "propagate":
            prop = agg.get_ReducedDensityMatrixPropagator(ta, relaxation_theory="standard_Redfield")
            rho = ReducedDensityMatrix(dim=n + 1)
            rho.data[1, 1] = 1.0
            prop.propagate(rho)
        elif call == "eso":
            from quantarhei.qm import EvolutionSuperOperator
            RT, ham = agg.get_RelaxationTensor(ta, relaxation_theory="standard_Redfield")
            t2 = qr.TimeAxis(0.0, 3, 10 * dt)
            eso = EvolutionSuperOperator(t2, ham, RT)
            eso.set_dense_dt(5)
            eso.calculate()
        elif call == "thermal_dm":
            agg.get_DensityMatrix(condition_type="thermal", temperature=300.0)
            agg.get_DensityMatrix(condition_type="thermal_excited_state", temperature=300.0)
        elif call == "excited_dm":
            agg.get_DensityMatrix(condition_type="impulsive_excitation")
        elif call == "set_rwa":
            agg.get_Hamiltonian().set_rwa([0, 1])
            agg.get_Hamiltonian().get_RWA_skeleton()
        elif call == "convert":
            qr.convert(1.0, "eV", to="1/cm")
            qr.convert(1.0, "1/cm")
        elif call == "time_to_freq":
            ta.get_FrequencyAxis()
        elif call == "freq_to_time":
            ta.get_FrequencyAxis().get_TimeAxis()
        elif call == "ham_bad_raises":
            qr.Hamiltonian(data=numpy.array([[0.0, 1.0], [2.0, 1.0]]))
        elif call == "trace_over_vib":
            rho = agg.get_DensityMatrix(condition_type="thermal", temperature=300.0)
            agg.trace_over_vibrations(rho)
        elif call == "rate_matrix_prop":
            from quantarhei.qm.propagators.poppropagator import PopulationPropagator
            RR = agg.get_RedfieldRateMatrix()
            PopulationPropagator(ta, RR).propagate(numpy.array([0.0] + [1.0 / n] * n))
        elif call == "dipole_coupling":
            for i, mol in enumerate(agg.monomers):
                mol.position = [5.0 * i, 1.0, 0.0]
            agg.set_coupling_by_dipole_dipole(epsr=2.0)
            agg.dipole_dipole_coupling(0, 1)
        elif call == "mol_thermal":
            agg.monomers[0].get_thermal_ReducedDensityMatrix()
        elif call == "fluor_calc":
            calc = qr.FluorSpectrumCalculator(ta, system=agg)
            calc.bootstrap(rwa=float(orc.convert(numpy.mean(spec["E"]), "1/cm", u)))
            calc.calculate()
        elif call == "lindich_calc":
            from quantarhei.spectroscopy.linear_dichroism import LinDichSpectrumCalculator
            calc = LinDichSpectrumCalculator(ta, system=agg)
            calc.bootstrap(rwa=float(orc.convert(numpy.mean(spec["E"]), "1/cm", u)))
            calc.calculate()
        elif call == "model_generator":
            import io, contextlib
            from quantarhei.models.modelgenerator import ModelGenerator
            with contextlib.redirect_stdout(io.StringIO()):
                mg = ModelGenerator()
                mg.get_Aggregate(name="dimer-1").build()
                mg.get_Aggregate_with_environment(name="dimer-1_env", timeaxis=ta).build()
        elif call == "database_specdens":
            from quantarhei.models.spectral_densities.renger_2002 import renger_2002a
            from quantarhei.models.spectral_densities.wendling_2000 import wendling_2000a
            renger_2002a().get_SpectralDensity(ta)
            wendling_2000a().get_SpectralDensity(ta)
        elif call == "exciton_report":
            import io
            agg.diagonalize()
            agg.exciton_report(file=io.StringIO())
            agg.report_on_expansion(file=io.StringIO())
        elif call == "pure_dephasing":
            agg.get_PureDephasing()
        elif call == "dfunction_ft":
            f = qr.DFunction(ta, numpy.exp(-ta.data / 50.0) + 0j)
            f.get_Fourier_transform().get_inverse_Fourier_transform()
        elif call == "sv_propagate":
            H = agg.get_Hamiltonian()
            sv = qr.StateVector(H.dim)
            sv.data[1] = 1.0
            qr.StateVectorPropagator(ta, H).propagate(sv)
        elif call == "mol_excited_dm":
            agg.monomers[0].get_excited_density_matrix()
        elif call == "save_load":
            import tempfile, shutil, os
            d = tempfile.mkdtemp(prefix="qv-c05-")
            try:
                fresh = gens.make_aggregate(qr, spec, build=False)
                fresh.save(os.path.join(d, "a.qrp"))
                qr.load_parcel(os.path.join(d, "a.qrp"))
            finally:
                shutil.rmtree(d, ignore_errors=True)
        elif call == "ham_in_basis":
            H = agg.get_Hamiltonian()
            H.copy()
            str(H)
            with qr.eigenbasis_of(H):
                H.data
        elif call == "rt_not_implemented_raises":
            agg.get_RelaxationTensor(ta, relaxation_theory="modified_Redfield")
        else:
            raise HarnessError("call " + call)

    def snapshot():
        return ({k: m.get_current_units(k) for k in ("energy", "frequency", "length")},
                bool(m._in_energy_units_context), int(m._in_eu_count))

    def inner():
        before = snapshot()
        try:
            body()
            state["returned"] = True
        except HarnessError:
            raise
        except Exception as e:
            state["raised"] = "%s: %s" % (type(e).__name__, str(e)[:120])
        after = snapshot()
        if after != before:
            ctx.fail("call-leaves-units", call, unit=u, before=list(before), after=list(after),
                     raised=state["raised"])

    outer = case["outer"]
    if outer:
        with qr.energy_units(outer):
            with qr.energy_units(u):
                inner()
            if m.get_current_units("energy") != outer:
                ctx.fail("context-restores-units", "after-call/" + call, got=m.get_current_units("energy"), want=outer)
    else:
        with qr.energy_units(u):
            inner()
    if expected_raise and state["returned"]:
        ctx.label("call-expected-to-raise-returned")
    if (not expected_raise) and state["raised"]:
        # the call is a documented use; that it raises is not C05's business, but it is recorded
        ctx.label("call-raised:" + call)
    ctx.mark_nontrivial(u not in ("int", "1/fs") and (state["returned"] != expected_raise))
    _units_default(ctx, qr, "call/" + call)
