"""C18  Saved objects and exported data load back to the same physical values.

Oracle: round trip.  (a) every saveable class of a hand-enumerated registry is
built from generated content, saved and loaded under generated unit / basis
contexts (path or file object); observables of the loaded object, read in a
neutral context after everything is closed, must equal those of the original.
(a') histories of savedir calls of several objects into one or two directories;
loaddir must return every saved object under its tag (dictionary model).
(b) data export: format x dtype x shape x axis through save_data/load_data.
"""
import io
import os
import shutil
import tempfile

import numpy
from hypothesis import strategies as st

from .. import oracles as orc
from .. import gens
from ..core import guarded, HarnessError
from ..core import quiet as core_quiet

ID = "C18"
TECHNIQUE = ("Hypothesis-generated (class, content, context at save, context at load, target) round trips over a "
             "registry of saveable classes, savedir/loaddir histories against a dictionary model, and the complete "
             "(format x dtype x shape x axis) export grid")
LEVEL = ("25 saveable classes (axes, discrete functions, operators, Hamiltonian with RWA, density matrices, state "
         "vectors, dipole operator, molecules with modes and environments, built aggregates, bath functions, "
         "system-bath interaction, absorption spectra and containers, two-dimensional responses and containers, "
         "density-matrix evolutions, relaxation tensors in both forms, evolution superoperators) are built from "
         "generated content, saved to a path or a file object and loaded, with none / units / basis / both contexts "
         "active at save and at load; the observables of the loaded object read in a neutral context equal the "
         "original ones. Histories of 2-8 savedir calls of 2-3 objects into one or two directories (automatic and explicit "
         "tags) are compared with a tag -> object dictionary after every step or at the end. Export also for Hamiltonians and operators inside unit / basis contexts, spectra on frequency axes received into a place-holder axis, density-matrix evolutions of 2-4 states, and functions on time and frequency axes. All 5 export formats x real/complex x (N,) / (N,M) x with/without axis are enumerated for "
         "DFunction (DataSaveable) and Operator (MatrixData)."
         " Later additions: deterministic grid of every saveable class x units contexts; directory histories with unordered and string tags; type sums of two-dimensional responses; exported data of any overall magnitude. Round five: single-row arrays in binary formats; interpolated values of saved bath functions.")
NOTE = ("The class registry and the observable extractors are hand-enumerated; a class not in the registry is not seen. "
        "Text formats are compared to 1e-15 relative, binary formats exactly. Context operators are real symmetric. Two-dimensional export data have >= 2 "
        "columns (an (N,1) array cannot be told from (N,) in the text/axis protocol).")
RULE = ("kind dir: objects + list of (object, directory, tag) operations, non-trivial if a directory receives a second "
        "object and the history has >= 3 operations; kind object: class id, integer content, ctx_save, ctx_load in {none, units, basis, both}, target path|file; "
        "kind export: grid over format/dtype/shape/axis plus generated values. Non-trivial: a non-trivial context at "
        "save or load (object), complex data or an axis (export).")
ASSUMPTIONS = ["temporary files live in tempfile.mkdtemp() and are removed after every case"]
BUDGET = {"quick": (700, 85), "thorough": (2000, 700)}
EXHAUSTIVE = True

CLASSES = ["TimeAxis", "FrequencyAxis", "ValueAxis", "DFunction", "Operator", "SelfAdjointOperator", "Hamiltonian",
           "DensityMatrix", "ReducedDensityMatrix", "TransitionDipoleMoment", "Molecule", "MoleculeModes",
           "Aggregate", "CorrelationFunction", "SpectralDensity", "SystemBathInteraction", "AbsSpectrum",
           "AbsSpectrumContainer", "TwoDResponse", "TwoDResponseContainer", "DensityMatrixEvolution", "RedfieldTensor",
           "RedfieldOperators", "LindbladForm", "EvolutionSuperOperator", "FluorSpectrum", "FluorSpectrumContainer",
           "LinDichSpectrum", "LinDichSpectrumContainer", "CircDichSpectrum", "CircDichSpectrumContainer", "Mode"]
CTX = ["none", "units", "basis", "both"]
FORMATS = ["dat", "txt", "npy", "npz", "mat"]


@st.composite
def _obj(draw):
    return {"kind": "object", "cls": draw(st.sampled_from(CLASSES)),
            "ints": draw(st.lists(st.integers(-9, 9), min_size=40, max_size=40)),
            "ctx_save": draw(st.sampled_from(CTX)), "ctx_load": draw(st.sampled_from(CTX)),
            "unit": draw(st.sampled_from(["1/cm", "eV", "THz"])), "target": draw(st.sampled_from(["path", "path", "file"])),
            # use (read) the object inside the context before saving / after loading
            "touch_save": draw(st.booleans()), "touch_load": draw(st.booleans())}


@st.composite
def _export(draw):
    return {"kind": "export", "owner": draw(st.sampled_from(["DFunction", "Operator", "Hamiltonian", "AbsSpectrum",
                                                                "DensityMatrixEvolution"])),
            "fmt": draw(st.sampled_from(FORMATS)),
            # axis class of the accompanying axis; units / basis context around export and import (the same for both)
            "axis_type": draw(st.sampled_from(["value", "time", "freq"])),
            "units": draw(st.sampled_from([None, None, "1/cm", "eV"])), "in_basis": draw(st.booleans()),
            "complex": draw(st.booleans()), "two_d": draw(st.booleans()), "axis": draw(st.booleans()),
            "n": draw(st.integers(2, 12)), "m": draw(st.integers(2, 4)),
            # overall magnitude of the data (bath functions in J^2, weak responses, ...)
            "magnitude": draw(st.sampled_from([1.0, 1.0, 1e-8, 1e-16, 1e-24, 1e12])),
            "ints": draw(st.lists(st.integers(-9, 9), min_size=96, max_size=96))}


DIRCLASSES = ["TimeAxis", "DFunction", "Operator", "Hamiltonian", "ReducedDensityMatrix", "AbsSpectrum"]


@st.composite
def _dir(draw):
    """history of savedir calls of a few objects into one or two directories, followed by loaddir of each"""
    nobj = draw(st.integers(2, 3))
    objs = [{"cls": draw(st.sampled_from(DIRCLASSES)), "ints": draw(st.lists(st.integers(-9, 9), min_size=40, max_size=40))}
            for _ in range(nobj)]
    ops = draw(st.lists(st.fixed_dictionaries({"o": st.integers(0, nobj - 1), "d": st.sampled_from([0, 0, 1]),
                                               "tag": st.sampled_from([None, None, None, 1, 3, 2, 7, "a", "b"])}),
                        min_size=2, max_size=8))
    return {"kind": "dir", "objs": objs, "ops": ops, "reader": draw(st.integers(0, nobj - 1)),
            "check_every_step": draw(st.booleans())}


@st.composite
def _stream(draw):
    """several objects saved one after the other into one open file and loaded back in the same order"""
    nobj = draw(st.integers(2, 3))
    return {"kind": "stream", "objs": [{"cls": draw(st.sampled_from(DIRCLASSES)),
                                        "ints": draw(st.lists(st.integers(-9, 9), min_size=40, max_size=40))}
                                       for _ in range(nobj)]}


def strategy(tier):
    return st.one_of(_obj(), _obj(), _export(), _dir(), _stream())


def grid(tier):
    ints = [((i * 37) % 19) - 9 for i in range(96)]
    # every saveable class saved and loaded under every combination of "no context" and "units context" (basis
    # contexts are left to the random search: objects used inside them are the open finding C18-save-in-basis-context)
    for cls in CLASSES:
        for cs in ("none", "units"):
            for cl in ("none", "units"):
                for unit in (("1/cm",) if tier == "quick" else ("1/cm", "eV")):
                    yield {"kind": "object", "cls": cls, "ints": ints[:40], "ctx_save": cs, "ctx_load": cl, "unit": unit,
                           "target": "path", "touch_save": True, "touch_load": True}
    for owner in ("DFunction", "Operator"):
        for fmt in FORMATS:
            for cplx in (False, True):
                for two_d in (False, True):
                    for axis in (False, True):
                        yield {"kind": "export", "owner": owner, "fmt": fmt, "complex": cplx, "two_d": two_d,
                               "axis": axis, "n": 7, "m": 3, "ints": ints}
                        if owner == "DFunction" and two_d and not axis and fmt in ("npy", "npz", "mat"):
                            # a genuinely two-dimensional array with a single row (binary formats keep the shape)
                            yield {"kind": "export", "owner": owner, "fmt": fmt, "complex": cplx, "two_d": True,
                                   "axis": False, "n": 1, "m": 5, "ints": ints}
                        if owner == "DFunction":
                            # the same data on other overall scales
                            for mag in (1e-8, 1e-16, 1e-24, 1e12):
                                yield {"kind": "export", "owner": owner, "fmt": fmt, "complex": cplx, "two_d": two_d,
                                       "axis": axis, "n": 7, "m": 3, "ints": ints, "magnitude": mag}
    base = {"kind": "export", "two_d": False, "axis": False, "n": 7, "m": 3, "ints": ints, "axis_type": "value"}
    for fmt in FORMATS:
        for units in (None, "1/cm", "eV"):
            for cplx in (False, True):
                yield dict(base, owner="AbsSpectrum", fmt=fmt, complex=cplx, units=units, in_basis=False)
            if fmt != "mat":
                for in_basis in (False, True):
                    yield dict(base, owner="Hamiltonian", fmt=fmt, complex=False, units=units, in_basis=in_basis)
                    yield dict(base, owner="Operator", fmt=fmt, complex=True, units=units, in_basis=in_basis)
        if fmt != "mat":
            for n in (6, 7, 8):          # 2, 3 and 4 states
                yield dict(base, owner="DensityMatrixEvolution", fmt=fmt, complex=True, units=None, in_basis=False, n=n)
        for atype in ("time", "freq"):
            for cplx in (False, True):
                yield dict(base, owner="DFunction", fmt=fmt, complex=cplx, axis=True, axis_type=atype, units=None,
                           in_basis=False)


def check_case(case, ctx):
    tmp = tempfile.mkdtemp(prefix="qv-c18-")
    try:
        if case["kind"] == "object":
            _check_object(case, ctx, tmp)
        elif case["kind"] == "dir":
            _check_dir(case, ctx, tmp)
        elif case["kind"] == "stream":
            _check_stream(case, ctx, tmp)
        else:
            _check_export(case, ctx, tmp)
    finally:
        shutil.rmtree(tmp, ignore_errors=True)


# ---------------------------------------------------------------------------
# (a) objects
# ---------------------------------------------------------------------------

def _mat(ints, dim, off=0, sym=False, scale=1.0):
    a = numpy.array([ints[(off + i) % len(ints)] for i in range(dim * dim)], dtype=float).reshape(dim, dim) * scale
    return a + a.T if sym else a


def _small_system(qr, ints, modes=False):
    spec = {"E": [12000 + 10 * ints[0], 12300 + 10 * ints[1]], "J": [[0, 50 + ints[2]], [50 + ints[2], 0]],
            "d": [[1.0, 0.5 * ints[3], 0.0], [0.0, 1.0, 0.5 * ints[4]]], "T": 300,
            "bath": [{"ftype": "OverdampedBrownian", "reorg": 30 + abs(ints[5]), "cortime": 50, "matsubara": 5},
                     {"ftype": "OverdampedBrownian", "reorg": 40 + abs(ints[6]), "cortime": 60, "matsubara": 5}],
            "time": [0.0, 50, 1.0]}
    agg = gens.make_aggregate(qr, spec, build=False)
    if modes:
        with qr.energy_units("1/cm"):
            md = qr.Mode(300.0 + ints[7])
            agg.monomers[0].add_Mode(md)
            md.set_nmax(0, 2); md.set_nmax(1, 2); md.set_HR(1, 0.1 * (1 + abs(ints[8])))
    return spec, agg


def build(qr, cls, ints):
    """returns (object, extractor) - extractor(obj) -> dict of named arrays, read in a neutral context"""
    from quantarhei import qm
    dim = 3
    if cls in ("TimeAxis", "FrequencyAxis", "ValueAxis"):
        start, n, step = float(ints[0]), 5 + abs(ints[1]), 0.5 * (1 + abs(ints[2]))
        if cls == "TimeAxis":
            o = qr.TimeAxis(start, n, step, atype="complete" if ints[3] % 2 else "upper-half")
        elif cls == "FrequencyAxis":
            with qr.energy_units("int"):
                o = qr.FrequencyAxis(start, n, step)
        else:
            o = qr.ValueAxis(start, n, step)

        def ex(x):
            with qr.energy_units("int"):
                d = {"data": numpy.array(x.data), "meta": numpy.array([x.start, x.step, x.length])}
            if hasattr(x, "atype"):
                d["atype"] = numpy.array([1.0 if x.atype == "complete" else 0.0])
            return d
        return o, ex
    if cls == "DFunction":
        ta = qr.TimeAxis(0.0, 10, 1.0)
        y = numpy.array(ints[:10], dtype=float) + 1j * numpy.array(ints[10:20], dtype=float)
        return qr.DFunction(ta, y), lambda x: {"data": numpy.array(x.data), "axis": numpy.array(x.axis.data)}
    if cls in ("Operator", "SelfAdjointOperator", "DensityMatrix", "ReducedDensityMatrix"):
        if cls == "Operator":
            o = qm.Operator(data=_mat(ints, dim) + 1j * _mat(ints, dim, 9))
        elif cls == "SelfAdjointOperator":
            o = qm.SelfAdjointOperator(data=_mat(ints, dim, sym=True))
        else:
            A = _mat(ints, dim) + numpy.eye(dim)
            rho = A @ A.T
            o = getattr(qm, cls)(data=rho / numpy.trace(rho))
        return o, lambda x: {"data": numpy.array(x.data)}
    if cls == "Hamiltonian":
        H = _mat(ints, dim, sym=True, scale=0.01)
        H[0, :] = 0; H[:, 0] = 0
        H[1, 1] += 2.0; H[2, 2] += 2.1
        with qr.energy_units("int"):
            o = qr.Hamiltonian(data=H)
        o.set_rwa([0, 1])

        def ex(x):
            with qr.energy_units("int"):
                return {"data": numpy.array(x.data), "rwa": numpy.array(x.rwa_energies),
                        "rwai": numpy.array(x.rwa_indices, dtype=float)}
        return o, ex
    if cls == "StateVector":
        return qr.StateVector(data=numpy.array(ints[:dim], dtype=float) + 1j * numpy.array(ints[3:3 + dim], dtype=float)), \
            lambda x: {"data": numpy.array(x.data)}
    if cls == "TransitionDipoleMoment":
        d = numpy.stack([_mat(ints, dim, k * 5, sym=True) for k in range(3)], axis=2)
        return qm.TransitionDipoleMoment(data=d), lambda x: {"data": numpy.array(x.data)}
    if cls in ("Molecule", "MoleculeModes"):
        spec, agg = _small_system(qr, ints, modes=(cls == "MoleculeModes"))
        mol = agg.monomers[0]

        def ex(x):
            with qr.energy_units("int"):
                d = {"energies": numpy.array(x.elenergies, dtype=float), "dipole": numpy.array(x.dmoments),
                     "H": numpy.array(x.get_Hamiltonian().data),
                     "env": numpy.array(x.get_transition_environment((0, 1)).data)}
                if x.nmod > 0:
                    m = x.get_Mode(0)
                    d["mode"] = numpy.array([m.get_energy(0), m.get_energy(1), m.get_shift(1), m.get_nmax(0), m.get_nmax(1)],
                                            dtype=float)
            return d
        return mol, ex
    if cls in ("Aggregate", "SystemBathInteraction"):
        spec, agg = _small_system(qr, ints)
        agg.build(mult=2 if ints[9] % 2 else 1)
        if cls == "Aggregate":
            def ex(x):
                with qr.energy_units("int"):
                    return {"H": numpy.array(x.get_Hamiltonian().data), "D": numpy.array(x.get_TransitionDipoleMoment().data),
                            "J": numpy.array(x.resonance_coupling), "Nb": numpy.array(x.Nb, dtype=float)}
            return agg, ex
        sbi = agg.get_SystemBathInteraction()

        def ex(x):
            return {"KK": numpy.array(x.KK), "cf0": numpy.array(x.CC.get_correlation_function(0, 0).data),
                    "cf1": numpy.array(x.CC.get_correlation_function(1, 1).data),
                    "lam": numpy.array([x.get_reorganization_energy(0), x.get_reorganization_energy(1)])}
        return sbi, ex
    if cls in ("CorrelationFunction", "SpectralDensity"):
        ta = qr.TimeAxis(0.0, 60, 1.0)
        p = dict(ftype="OverdampedBrownian", reorg=20.0 + abs(ints[0]), cortime=40.0 + abs(ints[1]), T=300.0, matsubara=5)
        with qr.energy_units("1/cm"):
            o = getattr(qr, cls)(ta, p)
        # the function has been evaluated between its grid points (spline interpolation) before it is saved
        with qr.energy_units("int"):
            xs = [float(o.axis.data[k]) + 0.37 * float(o.axis.step) for k in (len(o.axis.data) // 2 + 1, len(o.axis.data) // 2 + 4)]
            o.at(xs[0], approx="spline")

        def ex(x):
            with qr.energy_units("int"):
                return {"data": numpy.array(x.data), "axis": numpy.array(x.axis.data),
                        "lamb": numpy.array([x.get_reorganization_energy()]),
                        "interpolated": numpy.array([x.at(v, approx="spline") for v in xs])}
        return o, ex
    if cls == "Mode":
        with qr.energy_units("1/cm"):
            md = qr.Mode(300.0 + ints[0])
        mol = qr.Molecule([0.0, 1.5])
        mol.add_Mode(md)
        md.set_nmax(0, 2 + abs(ints[1]) % 3); md.set_nmax(1, 2 + abs(ints[2]) % 3); md.set_HR(1, 0.1 * (1 + abs(ints[3])))

        def exm(x):
            with qr.energy_units("int"):
                return {"mode": numpy.array([x.get_energy(0), x.get_energy(1), x.get_shift(0), x.get_shift(1), x.get_nmax(0),
                                             x.get_nmax(1)], dtype=float)}
        return md, exm
    if cls in ("FluorSpectrum", "FluorSpectrumContainer", "LinDichSpectrum", "LinDichSpectrumContainer", "CircDichSpectrum",
               "CircDichSpectrumContainer"):
        import importlib
        base = cls.replace("Container", "")
        mod = importlib.import_module("quantarhei.spectroscopy." + {"FluorSpectrum": "fluorescence",
                                                                     "LinDichSpectrum": "linear_dichroism",
                                                                     "CircDichSpectrum": "circular_dichroism"}[base])
        Spect, Cont = getattr(mod, base), getattr(mod, base + "Container")
        with qr.energy_units("1/cm"):
            fa = qr.FrequencyAxis(10000.0 + 10 * ints[0], 40, 2.5)
            vals = numpy.exp(-((numpy.arange(40) - 20.0 - ints[1]) / (5.0 + abs(ints[2]))) ** 2) * (1.0 if ints[3] >= 0 else -1.0)
            a = Spect(axis=fa, data=vals)

        def exs(x):
            with qr.energy_units("int"):
                return {"data": numpy.array(x.data), "axis": numpy.array(x.axis.data)}
        if cls == base:
            return a, exs
        cont = Cont()
        cont.set_axis(fa)
        with qr.energy_units("1/cm"):
            b = Spect(axis=fa, data=-0.5 * vals)
        cont.set_spectrum(a, tag="first")
        cont.set_spectrum(b, tag=1)

        def exsc(x):
            d = {}
            for t in ("first", 1):
                for k, v in exs(x.get_spectrum(t)).items():
                    d["%s/%s" % (t, k)] = v
            return d
        return cont, exsc
    if cls in ("AbsSpectrum", "AbsSpectrumContainer"):
        with qr.energy_units("1/cm"):
            fa = qr.FrequencyAxis(10000.0 + 10 * ints[0], 50, 2.0)
            vals = numpy.exp(-((numpy.arange(50) - 25.0 - ints[1]) / (5.0 + abs(ints[2]))) ** 2)
            a = qr.AbsSpectrum(axis=fa, data=vals)

        def exa(x):
            with qr.energy_units("int"):
                return {"data": numpy.array(x.data), "axis": numpy.array(x.axis.data)}
        if cls == "AbsSpectrum":
            return a, exa
        cont = qr.AbsSpectrumContainer()
        with qr.energy_units("1/cm"):
            b = qr.AbsSpectrum(axis=fa, data=2.0 * vals)
        cont.set_spectrum(a, tag=0)
        cont.set_spectrum(b, tag=1)

        def exc(x):
            d = {}
            for t in (0, 1):
                for k, v in exa(x.get_spectrum(t)).items():
                    d["%d/%s" % (t, k)] = v
            return d
        return cont, exc
    if cls in ("TwoDResponse", "TwoDResponseContainer"):
        from quantarhei.spectroscopy.twod2 import TwoDResponse
        from quantarhei.spectroscopy.twodcontainer import TwoDResponseContainer

        def mk(k):
            tw = TwoDResponse()
            with qr.energy_units("int"):
                tw.set_axis_1(qr.FrequencyAxis(2.0, 3, 0.01))
                tw.set_axis_3(qr.FrequencyAxis(2.0, 2, 0.01))
            tw._add_data(numpy.array(ints[k:k + 6], dtype=float).reshape(3, 2) * (1 + 1j), dtype="R2g", tag="a")
            tw._add_data(numpy.array(ints[k + 6:k + 12], dtype=float).reshape(3, 2) * (1 - 2j), dtype="R1g", tag="b")
            # a second pathway of the first type
            tw._add_data(numpy.array(ints[k + 12:k + 18], dtype=float).reshape(3, 2) * (2 + 1j), dtype="R2g", tag="c")
            tw.set_t2(10.0 * k)
            return tw

        def ext(x):
            d = {}
            for name, v in x.get_all_data().items():
                d[name] = numpy.array(v)
            # the sum over the pathways of one type (flag without a tag), read twice
            x.set_data_flag("R2g")
            d["type-R2g"] = numpy.array(x.d__data)
            d["type-R2g-read-again"] = numpy.array(x.d__data)
            x.set_data_flag(qr.signal_TOTL)
            d["total"] = numpy.array(x.d__data)
            d["t2"] = numpy.array([x.get_t2()])
            with qr.energy_units("int"):
                d["x"] = numpy.array(x.xaxis.data)
            return d
        if cls == "TwoDResponse":
            return mk(0), ext
        t2 = qr.TimeAxis(0.0, 2, 10.0)
        cont = TwoDResponseContainer(t2axis=t2)
        cont.use_indexing_type(t2)
        cont.set_spectrum(mk(0), tag=0.0)
        cont.set_spectrum(mk(1), tag=10.0)

        def exc(x):
            d = {}
            for t in (0.0, 10.0):
                for k, v in ext(x.get_spectrum(t)).items():
                    d["%s/%s" % (t, k)] = v
            return d
        return cont, exc
    if cls in ("DensityMatrixEvolution", "RedfieldTensor", "RedfieldOperators", "EvolutionSuperOperator"):
        spec, agg = _small_system(qr, ints)
        agg.build()
        ta = qr.TimeAxis(0.0, 50, 1.0)
        RT, ham = agg.get_RelaxationTensor(ta, relaxation_theory="standard_Redfield",
                                           as_operators=(cls == "RedfieldOperators"))
        if cls == "RedfieldTensor":
            return RT, lambda x: {"data": numpy.array(x.data)}
        if cls == "RedfieldOperators":
            return RT, lambda x: {"Km": numpy.array(x.Km), "Lm": numpy.array(x.Lm), "Ld": numpy.array(x.Ld)}
        if cls == "DensityMatrixEvolution":
            prop = qm.ReducedDensityMatrixPropagator(qr.TimeAxis(0.0, 10, 1.0), ham, RT)
            rho = qm.ReducedDensityMatrix(dim=3)
            rho.data[1, 1] = 0.5; rho.data[2, 2] = 0.5; rho.data[1, 2] = 0.25; rho.data[2, 1] = 0.25
            rt = prop.propagate(rho)
            return rt, lambda x: {"data": numpy.array(x.data), "time": numpy.array(x.TimeAxis.data)}
        eso = qm.EvolutionSuperOperator(qr.TimeAxis(0.0, 3, 5.0), ham, RT)
        eso.set_dense_dt(5)
        eso.calculate()
        return eso, lambda x: {"data": numpy.array(x.data), "time": numpy.array(x.time.data)}
    if cls == "LindbladForm":
        H = _mat(ints, dim, sym=True, scale=0.01)
        with qr.energy_units("int"):
            ham = qr.Hamiltonian(data=H)
        K = numpy.zeros((dim, dim)); K[0, 1 + abs(ints[0]) % 2] = 1.0
        sbi = qm.SystemBathInteraction([qm.Operator(data=K)], rates=(0.01 * (1 + abs(ints[1])),))
        lf = qm.LindbladForm(ham, sbi, as_operators=False)
        return lf, lambda x: {"data": numpy.array(x.data)}
    raise HarnessError("class " + cls)


def _check_object(case, ctx, tmp):
    import quantarhei as qr
    from quantarhei.qm import SelfAdjointOperator
    from quantarhei.core.parcel import load_parcel
    cls, ints = case["cls"], case["ints"]
    cs, cl = case["ctx_save"], case["ctx_load"]
    ctx.label("cls=" + cls, "save:" + cs, "load:" + cl, case["target"])
    ctx.mark_nontrivial(cs != "none" or cl != "none")
    try:
        obj, ex = build(qr, cls, ints)
    except HarnessError:
        raise
    except Exception as e:
        raise HarnessError("construction of %s failed: %r" % (cls, e))
    ok, want = guarded(ctx, "extract", lambda: ex(obj), cls)
    if not ok:
        return
    # the context operator lives on the Hilbert space of the object
    odim = 3
    for name in ("H", "data"):
        if name in want and numpy.ndim(want[name]) >= 2:
            odim = int(numpy.shape(want[name])[-1])
            break
    op = SelfAdjointOperator(data=_mat(ints, odim, 20, sym=True))
    path = os.path.join(tmp, "obj.qrp")

    import contextlib

    @contextlib.contextmanager
    def context(which):
        with contextlib.ExitStack() as stack:
            if which in ("units", "both"):
                stack.enter_context(qr.energy_units(case["unit"]))
            if which in ("basis", "both"):
                stack.enter_context(qr.eigenbasis_of(op))
            yield

    where = "save:%s/load:%s" % (cs, cl)       # (the class is part of the detail, not of the signature)

    ts, tl = bool(case.get("touch_save")), bool(case.get("touch_load"))
    where = where + ("/used-in-save-context" if ts and cs != "none" else "") + \
        ("/used-in-load-context" if tl and cl != "none" else "")

    def roundtrip():
        if case["target"] == "path":
            with context(cs):
                if ts:
                    ex(obj)
                obj.save(path)
            with context(cl):
                lo = load_parcel(path)
                if tl:
                    ex(lo)
            return lo
        with open(path, "wb") as f:
            with context(cs):
                if ts:
                    ex(obj)
                obj.save(f)
        with open(path, "rb") as f:
            with context(cl):
                lo = load_parcel(f)
                if tl:
                    ex(lo)
        return lo
    ok, loaded = guarded(ctx, "save-load", roundtrip, where, cls=cls)
    if not ok:
        return
    ok, got = guarded(ctx, "read-loaded-object", lambda: ex(loaded), where, cls=cls)
    if not ok:
        return
    # the original must not have been changed by saving it (read again in the neutral context)
    ok, again = guarded(ctx, "extract", lambda: ex(obj), cls)
    for name, w in want.items():
        if name not in got:
            ctx.fail("roundtrip/missing-observable", where, name=name)
            continue
        sc = max(1e-300, float(numpy.max(numpy.abs(w)))) if numpy.size(w) else 1.0
        ctx.close("roundtrip", got[name], w, rtol=1e-10, scale=sc, where=where, observable=name, cls=cls)
        if ok:
            ctx.close("saving-leaves-original", again[name], w, rtol=1e-10, scale=sc, where=where, observable=name,
                      cls=cls)


# ---------------------------------------------------------------------------
# (a') directories of saved objects: savedir / loaddir histories against a dictionary model
# ---------------------------------------------------------------------------

def _check_dir(case, ctx, tmp):
    import quantarhei as qr
    pool = []
    for o in case["objs"]:
        try:
            obj, ex = build(qr, o["cls"], o["ints"])
        except HarnessError:
            raise
        except Exception as e:
            raise HarnessError("construction of %s failed: %r" % (o["cls"], e))
        pool.append((obj, ex, ex(obj), o["cls"]))
    dirs = [os.path.join(tmp, "first"), os.path.join(tmp, "second")]
    model = [dict(), dict()]            # per directory: tag -> index of the object saved under it (insertion ordered)
    ctx.label("dir-history", "ops=%d" % len(case["ops"]))

    def compare(step):
        for di in range(2):
            if not model[di]:
                continue
            reader = pool[case["reader"] % len(pool)][0]
            ok, got = guarded(ctx, "loaddir", lambda: reader.loaddir(dirs[di]), "dir-history", step=step)
            if not ok:
                return False
            if set(got.keys()) != set(model[di].keys()):
                ctx.fail("loaddir/tags", "dir-history", got=sorted(got.keys(), key=repr),
                         want=sorted(model[di].keys(), key=repr), step=step)
                return False
            for tag, oi in model[di].items():
                obj, ex, want, cls = pool[oi]
                ok, have = guarded(ctx, "read-loaded-object", lambda: ex(got[tag]), "dir-history", cls=cls, step=step)
                if not ok:
                    return False
                for name, w in want.items():
                    sc = max(1e-300, float(numpy.max(numpy.abs(w)))) if numpy.size(w) else 1.0
                    if name not in have or numpy.shape(have[name]) != numpy.shape(w):
                        ctx.fail("loaddir/roundtrip", "dir-history", observable=name, cls=cls, tag=tag, step=step,
                                 reason="missing or wrong shape (another object under this tag)")
                        return False
                    if not ctx.close("loaddir/roundtrip", have[name], w, rtol=1e-10, scale=sc, where="dir-history",
                                     observable=name, cls=cls, tag=tag, step=step):
                        return False
        return True

    alternated = False
    two_dirs = set()
    for step, op in enumerate(case["ops"]):
        oi, di = op["o"] % len(pool), op["d"]
        obj = pool[oi][0]
        # tag: None = an automatic tag, which must not collide with any tag in use (whatever it is, the number of
        # tags has to grow by one and every earlier object has to stay loadable); explicit tags (numbers in any order,
        # strings) only if they are new
        tag = op["tag"]
        if tag is not None and tag in model[di]:
            tag = None
        ok, _ = guarded(ctx, "savedir", lambda: obj.savedir(dirs[di], tag=tag), "dir-history", step=step)
        if not ok:
            return
        if tag is None:
            # whatever the automatic tag is, it has to be a new one: exactly one tag more than before
            from quantarhei.core.parcel import load_parcel
            ok, hashes = guarded(ctx, "savedir/read-tags", lambda: load_parcel(os.path.join(dirs[di], "_hashes_.qrp")),
                                 "dir-history", step=step)
            if not ok:
                return
            new = [t for t in hashes if t not in model[di]]
            if len(new) != 1 or len(hashes) != len(model[di]) + 1:
                ctx.fail("savedir/automatic-tag-is-new", "dir-history", tags_before=sorted(model[di].keys(), key=repr),
                         tags_after=sorted(hashes.keys(), key=repr), step=step)
                return
            newtag = new[0]
        else:
            newtag = tag
        if model[di] and oi not in model[di].values():
            alternated = True
        model[di][newtag] = oi
        two_dirs.add((oi, di))
        if case["check_every_step"] and not compare(step):
            return
    compare(len(case["ops"]))
    ctx.mark_nontrivial(alternated and len(case["ops"]) >= 3)


def _check_stream(case, ctx, tmp):
    import quantarhei as qr
    from quantarhei.core.parcel import load_parcel
    pool = []
    for o in case["objs"]:
        try:
            obj, ex = build(qr, o["cls"], o["ints"])
        except HarnessError:
            raise
        except Exception as e:
            raise HarnessError("construction of %s failed: %r" % (o["cls"], e))
        pool.append((obj, ex, ex(obj), o["cls"]))
    path = os.path.join(tmp, "stream.qrp")
    ctx.label("stream", "n=%d" % len(pool))
    ctx.mark_nontrivial(len(set(p[3] for p in pool)) >= 2)

    def roundtrip():
        with open(path, "wb") as f:
            for obj, _, _, _ in pool:
                obj.save(f)
        out = []
        with open(path, "rb") as f:
            for _ in pool:
                out.append(load_parcel(f))
        return out
    ok, loaded = guarded(ctx, "save-load", roundtrip, "stream")
    if not ok:
        return
    for k, ((obj, ex, want, cls), lo) in enumerate(zip(pool, loaded)):
        if type(lo).__name__ != type(obj).__name__:
            ctx.fail("roundtrip/stream-order", "stream", position=k, got=type(lo).__name__, want=type(obj).__name__)
            return
        ok, got = guarded(ctx, "read-loaded-object", lambda: ex(lo), "stream", cls=cls)
        if not ok:
            return
        for name, w in want.items():
            sc = max(1e-300, float(numpy.max(numpy.abs(w)))) if numpy.size(w) else 1.0
            if name not in got or numpy.shape(got[name]) != numpy.shape(w):
                ctx.fail("roundtrip/stream-order", "stream", position=k, observable=name)
                return
            ctx.close("roundtrip", got[name], w, rtol=1e-10, scale=sc, where="stream", observable=name, cls=cls, position=k)


# ---------------------------------------------------------------------------
# (b) data export
# ---------------------------------------------------------------------------

def _check_export(case, ctx, tmp):
    import quantarhei as qr
    from quantarhei.qm import Operator
    fmt, cplx, two_d, axis = case["fmt"], case["complex"], case["two_d"], case["axis"]
    owner = case["owner"]
    n, m = case["n"], case["m"]
    ints = case["ints"]
    ctx.label("export:" + owner, "fmt=" + fmt, "complex" if cplx else "real", "2d" if two_d else "1d",
              "axis" if axis else "noaxis")
    ctx.mark_nontrivial(cplx or axis)
    import contextlib
    units, in_basis = case.get("units"), bool(case.get("in_basis"))

    @contextlib.contextmanager
    def around(basis_op=None):
        with contextlib.ExitStack() as stack:
            if units:
                stack.enter_context(qr.energy_units(units))
            if basis_op is not None:
                stack.enter_context(qr.eigenbasis_of(basis_op))
            yield

    if owner in ("Operator", "Hamiltonian"):
        if fmt == "mat" or axis:
            ctx.label("export:not-supported-by-MatrixData")
            return
        dim = 2 + n % 3
        if owner == "Hamiltonian":
            data = _mat(ints, dim, sym=True) * 0.01
            with qr.energy_units("int"):
                o = qr.Hamiltonian(data=data.copy())
                o2 = qr.Hamiltonian(data=numpy.zeros((dim, dim)))
        else:
            data = _mat(ints, dim) + (1j * _mat(ints, dim, 11) if cplx else 0)
            o = Operator(data=data.copy())
            o2 = Operator(dim=dim)
        from quantarhei.qm import SelfAdjointOperator
        bop = SelfAdjointOperator(data=_mat(ints, dim, 20, sym=True)) if in_basis else None
        path = os.path.join(tmp, "op." + fmt)
        where = "%s/%s/%s%s%s" % (owner, fmt, "complex" if cplx and owner == "Operator" else "real",
                                  "/units" if units else "", "/in-basis-context" if in_basis else "")
        ctx.label("export-context:" + ("units+" if units else "") + ("basis" if in_basis else ("none" if not units else "")))

        def rt():
            # exported and imported under the same kind of context; the target object is new to that context
            with around(bop):
                o.save_data(path)
            with around(bop):
                o2.load_data(path)
            with qr.energy_units("int"):
                return numpy.array(o2.data), numpy.array(o.data)
        ok, got = guarded(ctx, "export", rt, where)
        if ok:
            sc = max(1e-300, float(numpy.max(numpy.abs(data))))
            ctx.close("export-roundtrip", got[0], data, rtol=1e-12 if (units or in_basis) else 1e-15, scale=sc, where=where)
            ctx.close("export-leaves-original", got[1], data, rtol=1e-12, scale=sc, where=where)
        return
    if owner == "DensityMatrixEvolution":
        if fmt == "mat" or axis:
            ctx.label("export:not-supported-by-MatrixData")
            return
        from quantarhei.qm.propagators.dmevolution import ReducedDensityMatrixEvolution
        dim, nt = 2 + n % 3, 3 + m
        ta = qr.TimeAxis(0.0, nt, 1.0)
        data = numpy.zeros((nt, dim, dim), dtype=complex)
        for k in range(nt):
            A = (_mat(ints, dim, k) + 1j * _mat(ints, dim, k + 5)) / 7.0
            data[k] = A + A.conj().T
        ev = ReducedDensityMatrixEvolution(ta, qr.ReducedDensityMatrix(dim=dim))
        ev.data = data.copy()
        path = os.path.join(tmp, "ev." + fmt)
        where = "DensityMatrixEvolution/%s/dim%d" % (fmt, min(dim, 3))

        def rt():
            ev.save_data(path)
            e2 = ReducedDensityMatrixEvolution(ta, qr.ReducedDensityMatrix(dim=dim))
            e2.load_data(path)
            return numpy.array(e2.data)
        ok, got = guarded(ctx, "export", rt, where)
        if ok:
            ctx.close("export-roundtrip", got, data, rtol=1e-14, scale=float(numpy.max(numpy.abs(data))), where=where)
        return
    if owner == "AbsSpectrum":
        # a spectrum on a FrequencyAxis; the receiving object is created with a place-holder axis (load_data of spectra
        # needs some axis) and must come back with the axis stored in the file
        from quantarhei.spectroscopy.absbase import AbsSpectrumBase
        vals = numpy.array([ints[i % len(ints)] for i in range(n)], dtype=float) / 7.0
        if cplx:
            vals = vals + 1j * numpy.array([ints[(i + 7) % len(ints)] for i in range(n)], dtype=float) / 7.0
        path = os.path.join(tmp, "abs." + fmt)
        where = "AbsSpectrum/%s/%s%s" % (fmt, "complex" if cplx else "real", "/units" if units else "")

        def rt():
            with around():
                start = {None: 2.0, "1/cm": 11000.0, "eV": 1.4}[units]
                step = {None: 0.005, "1/cm": 25.0, "eV": 0.004}[units]
                wax = qr.FrequencyAxis(start, n, step)
                sp = AbsSpectrumBase(axis=wax, data=vals.copy())
                sp.save_data(path)
                sp2 = AbsSpectrumBase(axis=qr.FrequencyAxis(0.0, n, 1.0))
                with core_quiet():
                    sp2.load_data(path)
            with qr.energy_units("int"):
                return numpy.array(sp2.data), numpy.array(sp2.axis.data, dtype=float), numpy.array(wax.data, dtype=float)
        ok, got = guarded(ctx, "export", rt, where)
        if ok:
            ctx.close("export-roundtrip", got[0], vals, rtol=1e-14, scale=max(1e-300, float(numpy.max(numpy.abs(vals)))),
                      where=where)
            ctx.close("export-roundtrip/axis", got[1], got[2], rtol=1e-12, scale=float(numpy.max(numpy.abs(got[2]))),
                      where=where)
        return
    shape = (n, m) if two_d else (n,)
    size = n * m if two_d else n
    vals = numpy.array([ints[i % len(ints)] for i in range(size)], dtype=float)
    if cplx:
        vals = vals + 1j * numpy.array([ints[(i + 7) % len(ints)] for i in range(size)], dtype=float)
    vals = vals.reshape(shape) / 7.0          # not exactly representable with a few decimal digits
    vals = vals * float(case.get("magnitude", 1.0))
    if case.get("magnitude", 1.0) != 1.0:
        ctx.label("magnitude=%g" % case["magnitude"])
    atype = case.get("axis_type", "value")
    if atype == "time":
        ax, mk2 = qr.TimeAxis(1.5, n, 0.25), (lambda: qr.TimeAxis(0.0, n, 1.0))
    elif atype == "freq":
        with qr.energy_units("int"):
            ax = qr.FrequencyAxis(1.5, n, 0.25)
        mk2 = lambda: qr.FrequencyAxis(0.0, n, 1.0)
    else:
        ax, mk2 = qr.ValueAxis(1.5, n, 0.25), (lambda: qr.ValueAxis(0.0, n, 1.0))
    f = qr.DFunction()
    f.axis = ax
    f.data = vals.copy()
    path = os.path.join(tmp, "f." + fmt)
    where = "DFunction/%s/%s/%s/%s" % (fmt, "complex" if cplx else "real", "2d" if two_d else "1d",
                                       (atype + "-axis") if axis else "noaxis")

    def rt():
        f.save_data(path, with_axis=ax if axis else None)
        g = qr.DFunction()
        ax2 = mk2()
        g.axis = ax2
        g.load_data(path, with_axis=ax2 if axis else None)
        with qr.energy_units("int"):
            return numpy.array(g.data), numpy.array(ax2.data)
    ok, r = guarded(ctx, "export", rt, where)
    if not ok:
        return
    got, gax = r
    ctx.close("export-roundtrip", got, vals, rtol=1e-15, atol=0.0, scale=max(1e-300, float(numpy.max(numpy.abs(vals)))),
              where=where)
    if axis:
        with qr.energy_units("int"):
            axd = numpy.array(ax.data)
        ctx.close("export-roundtrip/axis", numpy.real(gax), axd, rtol=1e-15, where=where)
