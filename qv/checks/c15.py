"""C15  Propagation results are functions of their inputs only.

A case is a *history* of calls on one shared pool of objects (aggregate,
Hamiltonian, system-bath interaction, tensors, propagators, hierarchy,
states).  Oracles: (i) deep numeric fingerprints of every input object before
and after each call; (ii) a memo of (call, arguments) -> result taken at the
first execution: every later identical call must return the same numbers.
"""
import numpy
from hypothesis import strategies as st

from .. import oracles as orc
from .. import gens
from ..core import guarded, HarnessError

ID = "C15"
TECHNIQUE = ("Hypothesis-generated call histories on a shared object pool with before/after fingerprints of all inputs "
             "a first-execution memo of results, and a differential against a freshly constructed propagator "
             "(model-based history testing)")
LEVEL = ("Histories of 4-14 calls - building relaxation tensors (Redfield static/time dependent, operator/tensor form, "
         "secular; Foerster; combined Redfield-Foerster with cut-off), density-matrix propagation (refinement set by "
         "setDtRefinement, by the Nref argument, or left at the default), state-vector, population and hierarchical-"
         "equations propagation, evolution-superoperator calculation, electronic Lindblad form on a vibronic aggregate - "
         "are executed on one shared set of objects. After every call the Hamiltonian (data, remainder coupling, "
         "protection flag, RWA), the system-bath interaction (operators, correlation functions, rates), all tensors, "
         "hierarchy tables, initial states and axes must be unchanged (1e-12 relative), the Manager must be back in its "
         "default state, a call repeated with the same arguments must return the same numbers as the first time, and a "
         "density-matrix propagator that has been used before (with or without additional Lorentzian/Gaussian pure "
         "dephasing, at other refinements) must return what a freshly constructed propagator with the same inputs returns."
         " Later additions: deterministic X,Y,X histories over all pairs of call kinds; time-dependent combined tensor; one superoperator object recalculated with changing pure dephasing; refinement set / overridden by argument / default. Round five: state-vector propagation inside the eigenbasis; the non-equilibrium Foerster tensor with a second initial state.")
NOTE = ("A propagator's refinement set explicitly with setDtRefinement is treated as an input of later default calls; "
        "the Nref *argument* of propagate() is not. dim <= 4, <= 60 time points, hierarchy depth <= 2.")
RULE = ("history = list of ops over a pool built from gens.system_spec(N 2..3, coupled); op arguments are indices "
        "resolved modulo the pool. Non-trivial: >= 2 identical calls separated by >= 1 different call on a shared object.")
ASSUMPTIONS = ["results of identical calls are compared to 1e-12 relative (deterministic code)"]
BUDGET = {"quick": (300, 85), "thorough": (700, 800)}

THEORIES = [("stR", False, False, False), ("stR", False, True, False), ("stR", True, False, False),
            ("stR", False, False, True), ("stR", True, True, False), ("stF", False, False, False),
            ("stF", True, False, False), ("cRF", False, False, False), ("cRF", False, False, True),
            ("cRF", True, False, False), ("neF", True, False, False)]


@st.composite
def _case(draw, big):
    spec = draw(gens.system_spec(nmin=2, nmax=3, coupled=True, tmin=150, tmax=300, ntmax=60, lam=(10, 80), tauc=(20, 50),
                                 spread=300, jmax=200))
    spec["time"] = [0.0, draw(st.integers(30, 60)), 1.0]
    n = len(spec["E"])
    # most propagations of one history share a tensor slot and a kind of pure dephasing, so that one propagator object
    # is used several times with different refinements
    pd_pref = draw(st.sampled_from([None, "Lorentzian", "Gaussian"]))
    op = st.one_of(
        st.builds(lambda k, s: {"op": "tensor", "theory": k, "slot": s}, st.integers(0, len(THEORIES) - 1), st.integers(0, 1)),
        st.builds(lambda s, r, m, mode, nref, pd: {"op": "rdm", "slot": s, "rho": r, "method": m, "mode": mode,
                                                     "nref": nref, "pd": pd},
                  st.sampled_from([0, 0, 1, 2]), st.integers(0, 1), st.sampled_from(["short-exp", "short-exp-2", "short-exp-6"]),
                  st.sampled_from(["set", "set", "arg", "default", "default"]), st.sampled_from([1, 2, 5]),
                  st.sampled_from([pd_pref, pd_pref, pd_pref, None, "Lorentzian", "Gaussian"])),
        # (state-vector propagation; "inside": the call is made inside the eigenbasis of the Hamiltonian and the result
        # is read after the context has been left - the same evolution)
        st.builds(lambda r, L, h, i: {"op": "sv", "psi": r, "L": L, "hfce": h, "inside": i}, st.integers(0, 1),
                  st.sampled_from([2, 4]), st.sampled_from([False, False, True]), st.sampled_from([False, False, True])),
        # closed-system propagation on a time axis that does not start at zero, converted from the rotating frame
        st.builds(lambda r: {"op": "rdm_shifted", "rho": r}, st.integers(0, 1)),
        st.builds(lambda r: {"op": "pop", "p": r}, st.integers(0, 1)),
        # propagation matrix of the population propagator on a sub-axis, optionally with corrections
        st.builds(lambda c: {"op": "popmat", "corr": c}, st.sampled_from([None, 0, 0])),
        # a density-matrix propagation that is refused (unknown method) while a refinement argument is given
        st.builds(lambda s, r, nref: {"op": "rdm_refused", "slot": s, "rho": r, "nref": nref},
                  st.sampled_from([0, 0, 1, 2]), st.integers(0, 1), st.sampled_from([2, 5])),
        # read-only looks at the Hamiltonian made while other energy units are current
        st.builds(lambda w, u: {"op": "look", "what": w, "units": u},
                  st.sampled_from(["rwa_data", "rwa_skeleton", "data"]), st.sampled_from(["1/cm", "eV", "THz"])),
        st.builds(lambda d, r: {"op": "heom", "depth": d, "rho": r}, st.integers(1, 2), st.integers(0, 1)),
        st.builds(lambda s, d, pd: {"op": "eso", "slot": s, "dense": d, "pd": pd}, st.integers(0, 1), st.sampled_from([1, 2]),
                  st.sampled_from([None, None, "Lorentzian"])),
        st.just({"op": "elf"}),
        # two Lindblad forms built from one shared system-bath interaction object, used inside or outside the
        # eigenbasis of the Hamiltonian: identical inputs, identical dynamics
        st.builds(lambda k, c, r: {"op": "lindprop", "form": k, "ctx": c, "rho": r}, st.integers(0, 1), st.booleans(),
                  st.integers(0, 1)),
    )
    ops = draw(st.lists(op, min_size=4, max_size=10 if not big else 14))
    if draw(st.integers(0, 3)) > 0:
        # start from a time-independent tensor in slot 0 (otherwise slot 0 is empty until a tensor operation fills it)
        ops.insert(0, {"op": "tensor", "theory": draw(st.sampled_from([k for k, t in enumerate(THEORIES) if not t[1]])),
                       "slot": 0})
    # make repetition likely: append copies of two earlier ops
    for k in draw(st.lists(st.integers(0, 30), min_size=1, max_size=3)):
        ops.append(dict(ops[k % len(ops)]))
    return {"spec": spec, "ops": ops, "A": [draw(gens.density_matrix_spec(n + 1)) for _ in range(2)]}


def strategy(tier):
    return _case(tier == "thorough")


def grid(tier):
    """Deterministic histories on one fixed trimer: every kind of call repeated after every other kind (X, Y, X), so
    that interference between any two kinds of call is looked for at every seed, and the refinement / pure-dephasing
    sequences on one propagator object."""
    spec = {"E": [9000, 9150, 9320], "J": [[0, 80, 25], [80, 0, -120], [25, -120, 0]],
            "d": [[1.0, 0.0, 0.0], [0.0, 1.0, 0.0], [0.6, 0.0, 0.8]], "T": 200,
            "bath": [{"ftype": "OverdampedBrownian", "reorg": 30 + 10 * i, "cortime": 30 + 5 * i, "matsubara": 10}
                     for i in range(3)],
            "time": [0.0, 30, 1.0]}
    A = [[[[1, 0]], [[2, 1]], [[1, -1]], [[0, 2]]], [[[0, 0]], [[-1, -3]], [[3, -2]], [[1, -3]]]]
    T0 = {"op": "tensor", "theory": 0, "slot": 0}

    def rdm(mode, nref, pd=None, method="short-exp"):
        return {"op": "rdm", "slot": 0, "rho": 0, "method": method, "mode": mode, "nref": nref, "pd": pd}
    seqs = []
    for pd in (None, "Lorentzian", "Gaussian"):
        # one propagator object: default, refined through the setter, refined through the argument, refused, default
        seqs.append([T0, rdm("set", 5, pd), rdm("arg", 2, pd), rdm("default", 1, pd)])
        seqs.append([T0, rdm("default", 1, pd), rdm("set", 5, pd), rdm("default", 1, pd), rdm("set", 1, pd),
                     rdm("arg", 2, pd), rdm("default", 1, pd),
                     {"op": "rdm_refused", "slot": 0, "rho": 1, "nref": 5}, rdm("default", 1, pd), rdm("set", 2, pd)])
    E0 = {"op": "eso", "slot": 0, "dense": 1, "pd": None}
    E1 = {"op": "eso", "slot": 0, "dense": 1, "pd": "Lorentzian"}
    seqs.append([T0, E0, E1, E0, dict(E1, dense=2), E0])
    for th in range(len(THEORIES)):
        # every kind of tensor built twice with another one in between
        seqs.append([{"op": "tensor", "theory": th, "slot": 0}, {"op": "tensor", "theory": (th + 3) % len(THEORIES), "slot": 1},
                     {"op": "tensor", "theory": th, "slot": 0}])
    SV0 = {"op": "sv", "psi": 0, "L": 4, "hfce": False, "inside": False}
    TN = {"op": "tensor", "theory": len(THEORIES) - 1, "slot": 0}
    seqs.append([TN, rdm("default", 1), dict(rdm("default", 1), rho=1), rdm("default", 1), dict(rdm("default", 1), rho=1)])
    seqs.append([T0, SV0, dict(SV0, inside=True), SV0])
    seqs.append([T0, dict(SV0, inside=True), SV0])
    kinds = [rdm("default", 1), rdm("arg", 2, "Lorentzian"), {"op": "sv", "psi": 0, "L": 4, "hfce": False},
             {"op": "rdm_shifted", "rho": 1}, {"op": "pop", "p": 0}, {"op": "popmat", "corr": 0},
             {"op": "rdm_refused", "slot": 0, "rho": 0, "nref": 2}, {"op": "look", "what": "rwa_data", "units": "1/cm"},
             {"op": "eso", "slot": 0, "dense": 2}, {"op": "elf"}, {"op": "lindprop", "form": 0, "ctx": True, "rho": 0},
             {"op": "tensor", "theory": 7, "slot": 1}, {"op": "tensor", "theory": 4, "slot": 1},
             {"op": "heom", "depth": 1, "rho": 0}]
    if tier == "quick":
        kinds = kinds[:12]
    for i, x in enumerate(kinds):
        for j, y in enumerate(kinds):
            if i != j:
                seqs.append([T0, dict(x), dict(y), dict(x)])
    for ops in seqs:
        yield {"spec": spec, "ops": ops, "A": A}


def _fp_array(a):
    return numpy.array(a, copy=True)


class Pool(object):
    def __init__(self, qr, case):
        self.qr = qr
        spec = case["spec"]
        self.agg = gens.make_aggregate(qr, spec)
        t0, nt, dt = spec["time"]
        self.ta = qr.TimeAxis(t0, int(nt), dt)
        self.ham = self.agg.get_Hamiltonian()
        self.sbi = self.agg.get_SystemBathInteraction()
        self.n = len(spec["E"])
        self.rhos = [gens.density_matrix(A) for A in case["A"]]
        from quantarhei.qm import ReducedDensityMatrix
        self.rho_objs = [ReducedDensityMatrix(data=r.copy()) for r in self.rhos]
        self.psis = []
        for A in case["A"]:
            v = gens.to_complex(A)[:, 0]
            if numpy.linalg.norm(v) == 0:
                v = numpy.eye(self.n + 1)[:, 1].astype(complex)
            self.psis.append(qr.StateVector(data=v / numpy.linalg.norm(v)))
        self.p0 = [numpy.real(numpy.diag(r)).copy() for r in self.rhos]
        self.slots = {}            # slot -> (tensor, ham returned, key)
        self.props = {}            # slot key -> [propagator, last explicitly set Nref]
        self.svprop = None
        self.popprop = None
        self.rates = None          # rate matrix handed to the population propagator
        self.ta2 = qr.TimeAxis(50.0, 30, 1.0)        # a propagation axis that does not start at zero
        # a Lindblad-type system-bath interaction shared by several Lindblad forms
        from quantarhei.qm import SystemBathInteraction, Operator
        ks = []
        for a, b in ((1, min(2, self.n)), (min(2, self.n), 1)):
            K = numpy.zeros((self.n + 1, self.n + 1))
            K[a, b] = 1.0
            ks.append(K)
        self.lsbi = SystemBathInteraction([Operator(data=K) for K in ks], rates=(0.02, 0.01))
        self.lforms = {}
        self.hier = {}             # depth -> (hierarchy, propagator)
        self.esos = {}             # (slot, tensor key) -> evolution superoperator object
        self.eso_dense = {}        # ... and the dense step it was last given

    def fingerprint(self):
        qr = self.qr
        fp = {}
        h = self.ham
        fp["ham._data"] = _fp_array(h._data)
        fp["ham.flags"] = numpy.array([float(bool(getattr(h, "_has_remainder_coupling", False))),
                                       float(bool(h.is_basis_protected)), float(bool(h.has_rwa)),
                                       float(h.get_current_basis())])
        if getattr(h, "_has_remainder_coupling", False) and hasattr(h, "JR"):
            fp["ham.JR"] = _fp_array(h.JR)
        if h.has_rwa:
            fp["ham.rwa"] = numpy.concatenate([numpy.array(h.rwa_indices, dtype=float), _fp_array(h.rwa_energies)])
        fp["sbi.KK"] = _fp_array(self.sbi.KK)
        for i in range(self.sbi.N):
            cf = self.sbi.CC.get_correlation_function(i, i)
            fp["sbi.cf%d" % i] = _fp_array(cf.data)
            fp["sbi.cf%d.lamb" % i] = numpy.array([cf.lamb, cf.temperature])
        fp["sbi.time"] = _fp_array(self.sbi.TimeAxis.data)
        fp["ta"] = _fp_array(self.ta.data)
        fp["ta2"] = numpy.concatenate([_fp_array(self.ta2.data), [self.ta2.start, self.ta2.step]])
        for k, r in enumerate(self.rho_objs):
            fp["rho%d" % k] = _fp_array(r._data)
        for k, p in enumerate(self.psis):
            fp["psi%d" % k] = _fp_array(p._data if hasattr(p, "_data") else p.data)
        for k, p in enumerate(self.p0):
            fp["p0_%d" % k] = _fp_array(p)
        for s, (RT, hret, key) in self.slots.items():
            fp["tensor%d" % s] = _tensor_numbers(RT)
            fp["tensor%d.ham" % s] = _fp_array(hret._data)
        if self.rates is not None:
            fp["rates"] = _fp_array(self.rates.data)
        fp["lindblad-sbi.KK"] = _fp_array(self.lsbi.KK)
        for d, (hy, pr) in self.hier.items():
            fp["hier%d" % d] = numpy.concatenate([numpy.asarray(hy.hinds, dtype=float).ravel(),
                                                  numpy.asarray(hy.nm1, dtype=float).ravel(),
                                                  numpy.asarray(hy.np1, dtype=float).ravel(),
                                                  numpy.asarray(hy.Gamma, dtype=float).ravel(),
                                                  numpy.asarray(hy.lam, dtype=float), numpy.asarray(hy.gamma, dtype=float),
                                                  numpy.asarray(hy.Vs, dtype=float).ravel()])
        m = qr.Manager()
        fp["manager"] = numpy.array([float(m.get_current_basis()), float(len(m.basis_stack)),
                                     float(m.get_current_units("energy") in ("1/fs", "int")),
                                     float(m._in_eu_count), float(bool(m._in_eigenbasis_of_context))])
        return fp


def _tensor_numbers(RT):
    if getattr(RT, "as_operators", False):
        return numpy.concatenate([numpy.asarray(RT._Km if hasattr(RT, "_Km") else RT.Km).ravel().astype(complex),
                                  numpy.asarray(RT._Lm if hasattr(RT, "_Lm") else RT.Lm).ravel().astype(complex),
                                  numpy.asarray(RT._Ld if hasattr(RT, "_Ld") else RT.Ld).ravel().astype(complex)])
    return numpy.asarray(RT._data).ravel().astype(complex)


def _same(a, b):
    a, b = numpy.asarray(a), numpy.asarray(b)
    if a.shape != b.shape:
        return False, float("inf")
    if a.size == 0:
        return True, 0.0
    sc = max(1e-300, float(numpy.max(numpy.abs(b))))
    d = float(numpy.max(numpy.abs(a - b))) if numpy.all(numpy.isfinite(a)) and numpy.all(numpy.isfinite(b)) else float("inf")
    return d <= 1e-12 * sc + 1e-300, d / sc


def check_case(case, ctx):
    import quantarhei as qr
    from quantarhei.qm import (ReducedDensityMatrixPropagator, StateVectorPropagator, EvolutionSuperOperator)
    from quantarhei.qm.propagators.poppropagator import PopulationPropagator
    from quantarhei.qm.liouvillespace.heom import KTHierarchy, KTHierarchyPropagator
    ok, pool = guarded(ctx, "pool", lambda: Pool(qr, case))
    if not ok:
        return
    memo = {}
    repeats = 0
    fresh_compared = 0
    last_key = None
    interleaved_repeat = False
    seen_order = []

    for step, op in enumerate(case["ops"]):
        kind = op["op"]
        before = pool.fingerprint()
        key = None
        where = kind

        fresh = None

        def run():
            nonlocal key, where, fresh
            if kind == "tensor":
                th, td, as_ops, sec = THEORIES[op["theory"]]
                key = ("tensor", th, td, as_ops, sec)
                where = "tensor/%s%s%s%s" % (th, "/td" if td else "", "/ops" if as_ops else "", "/secular" if sec else "")
                kw = dict(relaxation_theory={"stR": "standard_Redfield", "stF": "standard_Foerster",
                                             "cRF": "combined_RedfieldFoerster", "neF": "noneq_Foerster"}[th],
                          time_dependent=td, secular_relaxation=sec)
                if th == "stR":
                    kw["as_operators"] = as_ops
                if th == "cRF":
                    # (a coupling exactly at the cut-off sits on a discontinuity: the rounding noise of a basis round
                    # trip of the Hamiltonian then decides whether it is removed - not a dependence on history)
                    cut = 60.0 if all(abs(abs(x) - 60) > 1e-6 for row in case["spec"]["J"] for x in row) else 60.5
                    with qr.energy_units("1/cm"):
                        RT, hret = pool.agg.get_RelaxationTensor(pool.ta, coupling_cutoff=cut, **kw)
                else:
                    RT, hret = pool.agg.get_RelaxationTensor(pool.ta, **kw)
                pool.slots[op["slot"]] = (RT, hret, key)
                for k in [k for k in pool.props if k[0] == op["slot"]]:
                    pool.props.pop(k)
                return numpy.concatenate([_tensor_numbers(RT), numpy.asarray(hret._data).ravel().astype(complex)])
            if kind == "rdm":
                slot = op["slot"] if op["slot"] in pool.slots else None
                if slot is None:
                    RT, hret, tkey = None, pool.ham, ("none",)
                else:
                    RT, hret, tkey = pool.slots[slot]
                td = RT is not None and getattr(RT, "is_time_dependent", False)
                # a propagator with additional pure dephasing (needs a time-independent tensor)
                pd = op.get("pd") if (RT is not None and not td) else None
                pslot = (slot, pd)

                def make_prop():
                    if RT is None:
                        return ReducedDensityMatrixPropagator(pool.ta, hret)
                    if pd:
                        from quantarhei.qm import PureDephasing
                        g = 0.01 * (numpy.ones((pool.n + 1, pool.n + 1)) - numpy.eye(pool.n + 1))
                        return ReducedDensityMatrixPropagator(pool.ta, hret, RT,
                                                              PDeph=PureDephasing(drates=g if pd == "Lorentzian" else g / 20.0,
                                                                                  dtype=pd))
                    return ReducedDensityMatrixPropagator(pool.ta, hret, RT)
                used_before = pslot in pool.props
                if not used_before:
                    pool.props[pslot] = [make_prop(), 1]
                tkey = tkey + (pd,)
                slot = pslot
                prop, lastset = pool.props[slot]
                rho = pool.rho_objs[op["rho"]]
                nref = 1 if td else op["nref"]          # refined steps of a TD tensor must fit its own axis
                mode = op["mode"]
                def fresh_reference(nref_set, nref_arg):
                    # the same call on a propagator that has no history: same inputs, same refinement
                    nonlocal fresh
                    if used_before:
                        if RT is not None and getattr(RT, "has_Iterm", False):
                            # (a tensor with a term that depends on the initial state: the reference gets a tensor of
                            # its own, built from the same inputs)
                            th_, td_, ao_, sec_ = [t for t in THEORIES if ("tensor",) + t == pool.slots[op["slot"]][2]][0]
                            RT2, h2 = gens.make_aggregate(qr, case["spec"]).get_RelaxationTensor(
                                pool.ta, relaxation_theory="noneq_Foerster", time_dependent=td_)
                            fp = ReducedDensityMatrixPropagator(pool.ta, h2, RT2)
                        else:
                            fp = make_prop()
                        if False:
                            pass
                        if nref_set != 1:
                            fp.setDtRefinement(nref_set)
                        if nref_arg is None:
                            fresh = numpy.array(fp.propagate(rho, method=op["method"]).data)
                        else:
                            fresh = numpy.array(fp.propagate(rho, method=op["method"], Nref=nref_arg).data)
                if mode == "set":
                    prop.setDtRefinement(nref)
                    pool.props[slot][1] = nref
                    key = ("rdm", tkey, op["rho"], op["method"], nref)
                    where = "rdm/setDtRefinement"
                    out = numpy.array(prop.propagate(rho, method=op["method"]).data)
                    fresh_reference(nref, None)
                    return out
                if mode == "arg" and nref > 1:
                    key = ("rdm", tkey, op["rho"], op["method"], nref)
                    where = "rdm/Nref-argument"
                    out = numpy.array(prop.propagate(rho, method=op["method"], Nref=nref).data)
                    fresh_reference(pool.props[slot][1], nref)
                    return out
                # default call: the refinement is whatever was last set explicitly with setDtRefinement
                key = ("rdm", tkey, op["rho"], op["method"], pool.props[slot][1])
                where = "rdm/default-call"
                out = numpy.array(prop.propagate(rho, method=op["method"]).data)
                fresh_reference(pool.props[slot][1], None)
                return out
            if kind == "sv":
                if pool.svprop is None:
                    pool.svprop = StateVectorPropagator(pool.ta, pool.ham)
                key = ("sv", op["psi"], op["L"])
                if op.get("hfce"):
                    # the Hamiltonian handed over as a (here constant) function of time: the same evolution
                    where = "sv/hfce"
                    return numpy.array(pool.svprop.propagate(pool.psis[op["psi"]], L=op["L"],
                                                             hfce=lambda t: pool.ham).data)
                if op.get("inside"):
                    where = "sv/inside-eigenbasis"
                    with qr.eigenbasis_of(pool.ham):
                        ev_ = pool.svprop.propagate(pool.psis[op["psi"]], L=op["L"])
                    return numpy.array(ev_.data)
                return numpy.array(pool.svprop.propagate(pool.psis[op["psi"]], L=op["L"]).data)
            if kind == "rdm_shifted":
                key = ("rdm_shifted", op["rho"])
                where = "rdm/shifted-axis-from-rwa"
                pr = ReducedDensityMatrixPropagator(pool.ta2, pool.ham)
                rt = pr.propagate(pool.rho_objs[op["rho"]])
                if pool.ham.has_rwa:
                    rt.convert_from_RWA(pool.ham)
                return numpy.array(rt.data)
            if kind in ("pop", "popmat"):
                if pool.popprop is None:
                    # (a RateMatrix object: get_PropagationMatrix needs an array-like rate matrix)
                    from quantarhei.qm.liouvillespace.rates.ratematrix import RateMatrix
                    pool.rates = RateMatrix(data=numpy.array(pool.agg.get_RedfieldRateMatrix().data, dtype=numpy.float64))
                    pool.popprop = PopulationPropagator(pool.ta, pool.rates)
                if kind == "pop":
                    key = ("pop", op["p"])
                    return numpy.array(pool.popprop.propagate(pool.p0[op["p"]]))
                sub = qr.TimeAxis(pool.ta.start, max(2, (pool.ta.length - 1) // 5), 5 * pool.ta.step)
                key = ("popmat", op["corr"])
                where = "popmat" + ("/corrections" if op["corr"] is not None else "")
                if op["corr"] is None:
                    return numpy.array(pool.popprop.get_PropagationMatrix(sub))
                out = pool.popprop.get_PropagationMatrix(sub, corrections=op["corr"])
                return numpy.concatenate([numpy.asarray(x, dtype=float).ravel() for x in (out if isinstance(out, (tuple, list)) else [out])])
            if kind == "rdm_refused":
                slot = op["slot"] if op["slot"] in pool.slots else None
                pslot = (slot, None)
                if pslot not in pool.props:
                    key = None
                    return None
                prop = pool.props[pslot][0]
                where = "rdm/refused-call"
                try:
                    prop.propagate(pool.rho_objs[op["rho"]], method="no-such-method", Nref=op["nref"])
                except Exception:
                    pass
                key = None
                return None
            if kind == "lindprop":
                from quantarhei.qm import LindbladForm
                k = op["form"]
                if k not in pool.lforms:
                    pool.lforms[k] = LindbladForm(pool.ham, pool.lsbi)
                key = ("lindprop", op["rho"])           # which of the forms, and the basis in use, are not inputs
                where = "lindblad-forms-sharing-sbi" + ("/in-context" if op["ctx"] else "")
                rho = pool.rho_objs[op["rho"]]
                if op["ctx"]:
                    # both forms are used one after the other inside one context
                    if 1 - k not in pool.lforms:
                        pool.lforms[1 - k] = LindbladForm(pool.ham, pool.lsbi)
                    with qr.eigenbasis_of(pool.ham):
                        rt = ReducedDensityMatrixPropagator(pool.ta, pool.ham, pool.lforms[k]).propagate(rho)
                        rt2 = ReducedDensityMatrixPropagator(pool.ta, pool.ham, pool.lforms[1 - k]).propagate(rho)
                    fresh = numpy.array(rt2.data)      # compared with the returned result below
                    return numpy.array(rt.data)
                pr = ReducedDensityMatrixPropagator(pool.ta, pool.ham, pool.lforms[k])
                return numpy.array(pr.propagate(rho).data)
            if kind == "look":
                key = ("look", op["what"], op["units"])
                where = "look/" + op["what"]
                with qr.energy_units(op["units"]):
                    if op["what"] == "rwa_data":
                        return numpy.array(pool.ham.get_RWA_data()) if pool.ham.has_rwa else None
                    if op["what"] == "rwa_skeleton":
                        return numpy.array(pool.ham.get_RWA_skeleton()) if pool.ham.has_rwa else None
                    return numpy.array(pool.ham.data)
            if kind == "heom":
                d = op["depth"]
                if d not in pool.hier:
                    hy = KTHierarchy(pool.ham, pool.sbi, d)
                    pool.hier[d] = (hy, KTHierarchyPropagator(pool.ta, hy))
                key = ("heom", d, op["rho"])
                where = "heom"
                return numpy.array(pool.hier[d][1].propagate(pool.rho_objs[op["rho"]]).data)
            if kind == "eso":
                slot = op["slot"] if op["slot"] in pool.slots else None
                if slot is None or getattr(pool.slots[slot][0], "is_time_dependent", False):
                    key = None
                    return None
                RT, hret, tkey = pool.slots[slot]
                t2 = qr.TimeAxis(0.0, 4, 4.0)

                def dephasing():
                    if not op.get("pd"):
                        return None
                    from quantarhei.qm import PureDephasing
                    return PureDephasing(drates=0.01 * (numpy.ones((pool.n + 1, pool.n + 1)) - numpy.eye(pool.n + 1)),
                                         dtype=op["pd"])
                # one superoperator object per tensor slot, calculated again and again with the settings of the call
                ekey = (slot, tkey)
                used = ekey in pool.esos
                if not used:
                    pool.esos[ekey] = EvolutionSuperOperator(t2, hret, RT)
                eso = pool.esos[ekey]
                eso.set_PureDephasing(dephasing())
                if pool.eso_dense.get(ekey) != op["dense"]:
                    # (the dense step is set only when it changes)
                    eso.set_dense_dt(op["dense"] * 2)
                    pool.eso_dense[ekey] = op["dense"]
                eso.calculate()
                key = ("eso", tkey, op["dense"], op.get("pd"))
                where = "eso" + ("/pdeph" if op.get("pd") else "")
                if used:
                    fe = EvolutionSuperOperator(t2, hret, RT)
                    fe.set_PureDephasing(dephasing())
                    fe.set_dense_dt(op["dense"] * 2)
                    fe.calculate()
                    fresh = numpy.array(fe.data)
                return numpy.array(eso.data)
            if kind == "elf":
                return _elf(qr, ctx)
            raise HarnessError(kind)
        ok, res = guarded(ctx, "call", run, kind)
        ctx.label("op:" + kind)
        if not ok:
            return
        if kind == "tensor":
            # the slot was re-assigned to a new tensor object: the old one is no longer part of the pool
            before.pop("tensor%d" % op["slot"], None)
            before.pop("tensor%d.ham" % op["slot"], None)
        after = pool.fingerprint()
        for name, val in before.items():
            if name not in after:
                continue
            same, dev = _same(after[name], val)
            if not same:
                ctx.fail("inputs-unchanged", where, changed=name, rel_change=dev, step=step)
                return
        if fresh is not None:
            fresh_compared += 1
            same, dev = _same(res, fresh)
            if not same:
                ctx.fail("forms-built-from-the-same-inputs-agree" if where.startswith("lindblad-forms") else
                         "used-propagator-equals-fresh-one", where, rel_change=dev, step=step, pd=op.get("pd"))
                return
        if key is not None and res is not None:
            if key in memo:
                repeats += 1
                if any(k != key for k in seen_order[seen_order.index(key) + 1:]):
                    interleaved_repeat = True
                same, dev = _same(res, memo[key])
                if not same:
                    sub = where
                    if kind == "rdm" and where == "rdm/default-call":
                        sub = "rdm/default-call-after-Nref-argument" if any(
                            o["op"] == "rdm" and o["mode"] == "arg" and o["nref"] > 1 for o in case["ops"][:step]) else where
                    ctx.fail("repeat-returns-same-result", sub, rel_change=dev, step=step)
                    return
            else:
                memo[key] = res
            seen_order.append(key)
    if fresh_compared:
        ctx.label("rdm:used-vs-fresh-compared")
    ctx.mark_nontrivial(interleaved_repeat)


def _elf(qr, ctx):
    """electronic Lindblad form requested for a vibronic aggregate: the passed-in SBI must stay as it was"""
    from quantarhei.qm import SystemBathInteraction, ProjectionOperator
    with qr.energy_units("1/cm"):
        m1, m2 = qr.Molecule([0.0, 12000.0]), qr.Molecule([0.0, 12200.0])
        md = qr.Mode(300.0)
        m1.add_Mode(md)
        md.set_nmax(0, 2); md.set_nmax(1, 2); md.set_HR(1, 0.2)
        agg = qr.Aggregate(molecules=[m1, m2])
        agg.set_resonance_coupling(0, 1, 80.0)
    agg.build()
    ops = [ProjectionOperator(1, 2, dim=3), ProjectionOperator(2, 1, dim=3)]
    sbi = SystemBathInteraction(ops, rates=(1.0 / 100.0, 1.0 / 200.0), system=agg)
    agg.set_SystemBathInteraction(sbi)
    kk = numpy.array(sbi.KK, copy=True)
    ta = qr.TimeAxis(0.0, 10, 1.0)
    agg.get_RelaxationTensor(ta, relaxation_theory="electronic_Lindblad")
    now = numpy.array(agg.get_SystemBathInteraction().KK)
    if now.shape != kk.shape or not numpy.array_equal(now, kk):
        ctx.fail("inputs-unchanged", "electronic_Lindblad/vibronic", changed="sbi.KK", shape_before=list(kk.shape),
                 shape_after=list(now.shape))
    return None
