"""C06  Rates and bath functions obey detailed balance and conserve probability.

Oracles: the golden-rule rate with the analytic overdamped-Brownian spectral
density typed into the oracle; Boltzmann factors from the oracle's own
eigen-decomposition; structural identities (column sums, signs, oddness).
"""
import math

import numpy
from hypothesis import strategies as st

from .. import oracles as orc
from .. import gens
from ..core import guarded

ID = "C06"
TECHNIQUE = ("Hypothesis-generated aggregates and baths against the analytic golden-rule rate, Boltzmann ratios from an "
             "independent diagonalisation, and structural identities of rate matrices and bath functions")
LEVEL = ("For generated coupled aggregates of 2-4 sites (the tensor also with a bath-memory cut-off time, which must equal the tensor on a time axis ending there; the Fourier-transformed correlation function also requested inside a units context) with site-dependent overdamped Brownian baths (77-400 K): the "
         "Redfield rate matrix has non-negative off-diagonals, zero column sums, an isolated ground state and ratios "
         "k_ab/k_ba = exp(-(E_a-E_b)/kT) with E from numpy.linalg.eigh of the oracle's own Hamiltonian; its downhill "
         "elements and the elements R[a,a,b,b] of the Redfield tensor read inside eigenbasis_of(H) equal "
         "sum_n |c_na|^2 |c_nb|^2 (1+coth(w/2kT)) J_n(w) within the stated error model; the Foerster rate matrix has zero "
         "column sums and obeys detailed balance with respect to E_n - lambda_n within the stated error model; spectral densities are odd and the "
         "Fourier-transformed correlation function obeys C(-w) = exp(-w/kT) C(w)."
         " Later additions: rates and tensors computed while other units are current; composite bath functions; operator-form tensor converted inside the eigenbasis; spectral densities with a temperature of their own. Round five: densities on a caller's frequency axis without a point at zero; composite densities; deterministic grid of bath functions.")
NOTE = ("Class-3 clauses use explicit error models, calibrated on ~650 state pairs of the unchanged tree: golden rule: "
        "allowed = 3 % (tensor: 6 %) + 0.4*dt*Re C(0)/k (endpoint term of the discrete half-Fourier transform; worst observed ratio "
        "to the model 0.25/0.4), asserted where allowed <= 25 %; Foerster detailed balance: allowed = 1 % + 0.006*(M/k_ab + "
        "M/k_ba), M = integral of the modulus of the overlap integrand (cancellation measure), asserted where the "
        "integrand has decayed below 1e-3 on the time axis and the sum is <= 40 (worst observed ratio to the sum on 2185 "
        "pairs: 0.0038; a first, constant tolerance of 6 % raised a false alarm at 6.003 % in a thorough run). The seeded changes shift these quantities by 27-105 %. Transition frequencies "
        "20 cm^-1 <= |w| <= 0.25*pi/dt and below the library's 3000 cm^-1 cut-off.")
RULE = ("kind rates: gens.system_spec(N 2..4, coupled, site-dependent baths, 50..100 Matsubara terms); kind bath: "
        "(lambda, tau_c, T, axis). Non-trivial: >= 2 coupled sites and all exciton gaps >= 20 cm^-1.")
ASSUMPTIONS = [
    "the library uses k_B = 0.69503476 cm^-1/K; Boltzmann ratios are compared to 1e-5 relative",
    "spectral density of the oracle: J(w) = 2 lambda w gamma/(w^2+gamma^2), gamma = 1/tau_c",
]
BUDGET = {"quick": (300, 90), "thorough": (600, 800)}


@st.composite
def _rates(draw, big):
    spec = draw(gens.system_spec(nmin=2, nmax=3 if not big else 4, coupled=True, tmin=77, tmax=400, ntmax=1000,
                                 lam=(10, 120), tauc=(30, 120), spread=500, jmax=300, same_bath=False, dipoles=False))
    for b in spec["bath"]:
        b["matsubara"] = 50 + b["matsubara"] % 51
    # a long enough axis: >= 10 correlation times
    dt = spec["time"][2]
    tc = max(b["cortime"] for b in spec["bath"])
    spec["time"] = [0.0, int(min(1000 if not big else 2000, max(200, 10 * tc / dt))), dt]
    # optionally the tensor is built with a cut-off time of 7-9 correlation times (inside the axis): the half-Fourier
    # integral has converged there, so the golden-rule value is still the expectation
    cut = draw(st.sampled_from([None, None, 7, 8, 9]))
    # the rate matrix and the tensor may be taken from one aggregate that has been used before: a time-dependent rate
    # matrix computed from its Hamiltonian and system-bath interaction first; one site's bath may be assigned twice (the
    # second assignment replaces the first)
    return {"kind": "rates", "spec": spec, "cutoff_in_cortimes": cut,
            "shared_after": draw(st.sampled_from([None, None, "td_rates", "rates"])),
            "reassign": draw(st.sampled_from([None, None, 0, 1])),
            # the caller computes rates and tensors while other energy units are current
            "calc_units": draw(st.sampled_from([None, None, "1/cm", "eV", "THz"])),
            # the tensor is obtained in operator form and converted to tensor form later, inside the eigenbasis
            "tensor_route": draw(st.sampled_from(["tensor", "tensor", "operators-converted-in-eigenbasis"])),
            # one site's bath is a composite: its overdamped function plus a weak underdamped mode (in that order)
            "composite": draw(st.sampled_from([None, None, 0, 1]))}


@st.composite
def _bath(draw):
    return {"kind": "bath", "reorg": draw(st.integers(5, 150)), "cortime": draw(st.integers(20, 200)),
            "T": draw(st.integers(50, 400)), "nt": draw(st.integers(100, 600)), "dt": draw(st.sampled_from([0.5, 1.0, 2.0])),
            "ftype": draw(st.sampled_from(["OverdampedBrownian", "UnderdampedBrownian", "OverdampedBrownian",
                                           "UnderdampedBrownian", "B777-alternative", "CP29"])),
            "freq": draw(st.integers(100, 800)), "gamma": draw(st.integers(5, 60)),
            "ft_units": draw(st.sampled_from([None, "1/cm", "eV", "THz"])),
            # the spectral density carries a temperature of its own, different from the one asked for
            "sd_T_offset": draw(st.sampled_from([0, 100, -40])),
            # the spectral density is put on a frequency axis supplied by the caller: symmetric about zero, shifted by
            # half a step so that zero itself is not a grid point
            "own_axis": draw(st.sampled_from([False, False, True])),
            # a second (overdamped) component: the derived correlation function carries the summed parameters
            "second_component": draw(st.sampled_from([None, None, 35]))}


def grid(tier):
    """Every bath type with every option of the bath check switched on, on fixed parameters."""
    for ft in ("OverdampedBrownian", "UnderdampedBrownian", "B777-alternative", "CP29"):
        for own in (False, True):
            for second in (None, 35):
                for off in (0, 100):
                    for fu in (None, "1/cm"):
                        yield {"kind": "bath", "reorg": 40, "cortime": 80, "T": 200, "nt": 300, "dt": 1.0, "ftype": ft,
                               "freq": 400, "gamma": 30, "ft_units": fu, "sd_T_offset": off, "own_axis": own,
                               "second_component": second}


def strategy(tier):
    big = tier == "thorough"
    return st.one_of(_rates(big), _rates(big), _bath())


def check_case(case, ctx):
    if case["kind"] == "rates":
        return _check_rates(case, ctx)
    return _check_bath(case, ctx)


def _check_rates(case, ctx):
    import quantarhei as qr
    spec = case["spec"]
    n = len(spec["E"])
    T = spec["T"]
    kT = orc.KB_INT * T
    H = gens.site_hamiltonian_int(spec)
    ev, C = numpy.linalg.eigh(H[1:, 1:])
    gaps = [abs(ev[i] - ev[j]) / orc.CM2INT for i in range(n) for j in range(i + 1, n)]
    dt = spec["time"][2]
    wmax = min(0.25 * math.pi / dt, 2800 * orc.CM2INT)
    resolved = min(gaps) >= 20 and max(gaps) * orc.CM2INT <= wmax
    ctx.label("rates", "N=%d" % n, "resolved" if resolved else "unresolved")
    ctx.mark_nontrivial(resolved)
    t0, nt, dtt = spec["time"]
    ta = qr.TimeAxis(t0, int(nt), dtt)
    cutoff = None
    if case.get("cutoff_in_cortimes"):
        # (a point of the time axis, so that "the nearest index" is not a matter of rounding half-way values)
        cutoff = dtt * math.floor(case["cutoff_in_cortimes"] * max(b["cortime"] for b in spec["bath"]) / dtt)
        if cutoff > (int(nt) - 1) * dtt:
            cutoff = None
    ctx.label("tensor-cutoff" if cutoff is not None else "tensor-no-cutoff")

    def golden(a, b):
        """downhill rate a <- b (E_a < E_b) and the allowed relative deviation of the numerical half-Fourier transform.

        Error model: the discrete transform of C(t) carries an absolute error of the order of the first neglected
        endpoint term, dt*Re C(0), which matters where C(w) is small (high frequencies): allowed = 0.03 + 0.4 *
        sum_n weight_n*dt*Re C_n(0) / k_golden (0.4 covers the worst ratio 0.25 observed on 650 pairs)."""
        w = ev[b] - ev[a]
        k = 0.0
        eabs = 0.0
        for s in range(n):
            bath = spec["bath"][s]
            lam = bath["reorg"] * orc.CM2INT
            J = orc.ob_spectral_density(w, lam, bath["cortime"])
            wt = (C[s, a] ** 2) * (C[s, b] ** 2)
            k += wt * (1.0 + 1.0 / math.tanh(w / (2 * kT))) * J
            c0 = sum(c.real for c, nu in orc.ob_exponentials(lam, bath["cortime"], T, bath["matsubara"]))
            eabs += wt * dt * c0
        allowed = 0.03 + 0.4 * eabs / k if k > 0 else float("inf")
        return k, allowed

    # ---- Redfield rate matrix ---------------------------------------------------------------
    shared = {}
    cu = case.get("calc_units")
    if cu:
        ctx.label("calculated-in-units:" + cu)

    def in_units(fn):
        """fn called the way the case's caller does: while other energy units are current, or not"""
        if not cu:
            return fn
        def wrapped(*a, **kw):
            with qr.energy_units(cu):
                return fn(*a, **kw)
        return wrapped

    def the_aggregate():
        """a fresh aggregate per use, or one shared aggregate with a history"""
        if not case.get("shared_after"):
            return gens.make_aggregate(qr, spec)
        if "agg" not in shared:
            agg = gens.make_aggregate(qr, spec)
            ham, sbi = agg.get_Hamiltonian(), agg.get_SystemBathInteraction()
            if case["shared_after"] == "td_rates":
                from quantarhei.qm import TDRedfieldRateMatrix
                TDRedfieldRateMatrix(ham, sbi)
            else:
                agg.get_RedfieldRateMatrix()
            shared["agg"] = agg
        return shared["agg"]
    ctx.label("objects:" + (("shared-after-" + case["shared_after"]) if case.get("shared_after") else "fresh"))
    ok, RR = guarded(ctx, "redfield-rates", in_units(lambda: numpy.array(the_aggregate().get_RedfieldRateMatrix().data)))
    if ok:
        if RR.shape != (n + 1, n + 1):
            ctx.fail("redfield-rates/shape", got=list(RR.shape))
        else:
            sc = max(1e-12, float(numpy.max(numpy.abs(RR))))
            off = RR - numpy.diag(numpy.diag(RR))
            ctx.bound("redfield-rates/non-negative", max(0.0, -float(numpy.min(off))), 1e-12 * sc + 1e-300)
            ctx.close("redfield-rates/column-sums", numpy.sum(RR, axis=0), numpy.zeros(n + 1), rtol=0, atol=1e-9 * sc)
            ctx.bound("redfield-rates/ground-state-isolated",
                      float(max(numpy.max(numpy.abs(RR[0, :])), numpy.max(numpy.abs(RR[:, 0])))), 1e-12 * sc + 1e-300)
            if resolved:
                for a in range(n):
                    for b in range(a + 1, n):
                        # a is the lower state (eigh sorts ascending); rate-matrix index = exciton index + 1
                        kd, ku = RR[a + 1, b + 1], RR[b + 1, a + 1]
                        if kd > 1e-9 * sc:
                            want = math.exp(-(ev[b] - ev[a]) / kT)
                            ctx.close("redfield-rates/detailed-balance", ku / kd, want, rtol=1e-5, atol=1e-14, T=T)
                            g, allowed = golden(a, b)
                            if g > 1e-7 and allowed <= 0.25:
                                ctx.bound("golden-rule/rate-matrix", abs(kd / g - 1.0), allowed, T=T,
                                          w_cm=round((ev[b] - ev[a]) / orc.CM2INT, 1), N=n)
                            elif g > 1e-7:
                                ctx.label("golden-rule:outside-error-model-window")

    # ---- time-dependent Redfield rates: the same numbers whatever units are current for the caller ------------
    if cu and case.get("shared_after") == "td_rates":
        def td_rates():
            from quantarhei.qm import TDRedfieldRateMatrix
            agg = gens.make_aggregate(qr, spec)
            return numpy.array(TDRedfieldRateMatrix(agg.get_Hamiltonian(), agg.get_SystemBathInteraction()).data)
        ok1, K1 = guarded(ctx, "td-redfield-rates", td_rates, "internal-units")
        ok2, K2 = guarded(ctx, "td-redfield-rates", in_units(td_rates), "in-units")
        if ok1 and ok2:
            ctx.close("td-redfield-rates/same-in-any-units-context", K2, K1, rtol=1e-9,
                      scale=max(1e-300, float(numpy.max(numpy.abs(K1)))), units=cu)

    # ---- Redfield tensor, population elements in the exciton basis ----------------------------------
    def tensor():
        agg = the_aggregate()
        if case.get("tensor_route") == "operators-converted-in-eigenbasis":
            RT, ham = agg.get_RelaxationTensor(ta, relaxation_theory="standard_Redfield", as_operators=True)
            with qr.eigenbasis_of(ham):
                RT.convert_2_tensor()
                return numpy.array(RT.data)
        RT, ham = agg.get_RelaxationTensor(ta, relaxation_theory="standard_Redfield")
        with qr.eigenbasis_of(ham):
            return numpy.array(RT.data)
    ctx.label("tensor-route:" + case.get("tensor_route", "tensor"))

    def tensor_direct(sp, **kw):
        # the library's own construction pattern (get_RelaxationTensor does not pass a cut-off time on)
        from quantarhei.qm import RedfieldRelaxationTensor
        agg = gens.make_aggregate(qr, sp)
        ham, sbi = agg.get_Hamiltonian(), agg.get_SystemBathInteraction()
        ham.protect_basis()
        try:
            with qr.eigenbasis_of(ham):
                RT = RedfieldRelaxationTensor(ham, sbi, **kw)
        finally:
            ham.unprotect_basis()
        with qr.eigenbasis_of(ham):
            return numpy.array(RT.data)
    if resolved and cutoff is not None:
        # a cut-off time T means "integrate the bath correlation functions up to T": the same tensor must come out
        # without a cut-off on a time axis that ends at T (same step)
        icut = int(round(cutoff / dtt))
        ok1, Rc = guarded(ctx, "redfield-tensor", lambda: tensor_direct(spec, cutoff_time=cutoff), "cutoff")
        ok2, Rs = guarded(ctx, "redfield-tensor", lambda: tensor_direct(dict(spec, time=[t0, icut, dtt])), "short-axis")
        if ok1 and ok2:
            pc = numpy.array([[Rc[a, a, b, b] for b in range(n + 1)] for a in range(n + 1)])
            ps = numpy.array([[Rs[a, a, b, b] for b in range(n + 1)] for a in range(n + 1)])
            ctx.close("redfield-tensor/cutoff-time-equals-shorter-axis", pc, ps, rtol=1e-6,
                      scale=max(1e-300, float(numpy.max(numpy.abs(ps)))), dt=dtt, cutoff=cutoff)
            for a in range(n):
                for b in range(a + 1, n):
                    g, allowed = golden(a, b)
                    if g > 1e-7 and allowed <= 0.25:
                        ctx.bound("golden-rule/tensor-with-cutoff", abs(float(numpy.real(Rc[a + 1, a + 1, b + 1, b + 1])) / g - 1.0),
                                  allowed + 0.03, T=T, w_cm=round((ev[b] - ev[a]) / orc.CM2INT, 1), N=n, dt=dtt)
    if resolved:
        ok, R = guarded(ctx, "redfield-tensor", in_units(tensor))
        if ok:
            for a in range(n):
                for b in range(a + 1, n):
                    g, allowed = golden(a, b)
                    if g > 1e-7 and allowed <= 0.25:
                        kd = float(numpy.real(R[a + 1, a + 1, b + 1, b + 1]))
                        # the tensor integrates C(t)exp(iwt) with splines over the finite axis: 3 % more at low w
                        ctx.bound("golden-rule/tensor", abs(kd / g - 1.0), allowed + 0.03, T=T,
                                  w_cm=round((ev[b] - ev[a]) / orc.CM2INT, 1), N=n)

    # ---- Foerster rate matrix --------------------------------------------------------------------------
    comp = case.get("composite")
    comp = None if comp is None else comp % n
    LAM_U = 15.0

    def foerster():
        if comp is not None:
            from quantarhei.qm import Operator, SystemBathInteraction, FoersterRateMatrix
            from quantarhei.qm.corfunctions import CorrelationFunctionMatrix
            time = qr.TimeAxis(t0, int(nt), dtt)
            with qr.energy_units("1/cm"):
                cfs = []
                for i, b in enumerate(spec["bath"]):
                    if i == comp:
                        cfs.append(qr.CorrelationFunction(time, [gens.bath_params(b, T),
                                                                 dict(ftype="UnderdampedBrownian", reorg=LAM_U, freq=400.0,
                                                                      gamma=50.0, T=float(T))]))
                    else:
                        cfs.append(qr.CorrelationFunction(time, gens.bath_params(b, T)))
            cm = CorrelationFunctionMatrix(time, n, n)
            for i in range(n):
                cm.set_correlation_function(cfs[i], [(i, i)])
            ops = []
            for i in range(n):
                K = numpy.zeros((n + 1, n + 1)); K[i + 1, i + 1] = 1.0
                ops.append(Operator(data=K))
            sbi = SystemBathInteraction(ops, cm)
            with qr.energy_units("int"):
                ham = qr.Hamiltonian(data=gens.site_hamiltonian_int(spec).copy())
            ctx.label("foerster:composite-bath")
            return numpy.array(FoersterRateMatrix(ham, sbi).data)
        if case.get("reassign") is None:
            return numpy.array(gens.make_aggregate(qr, spec).get_FoersterRateMatrix().data)
        # the same system with a hand-made system-bath interaction in which one site first got another site's bath
        # and was then assigned its own: the last assignment counts
        from quantarhei.qm import Operator, SystemBathInteraction, FoersterRateMatrix
        from quantarhei.qm.corfunctions import CorrelationFunctionMatrix
        k = case["reassign"] % n
        other = (k + 1) % n
        time = qr.TimeAxis(t0, int(nt), dtt)
        with qr.energy_units("1/cm"):
            cfs = [qr.CorrelationFunction(time, gens.bath_params(b, T)) for b in spec["bath"]]
        cm = CorrelationFunctionMatrix(time, n, n)
        for i in range(n):
            cm.set_correlation_function(cfs[other] if i == k else cfs[i], [(i, i)])
        cm.set_correlation_function(cfs[k], [(k, k)])
        ops = []
        for i in range(n):
            K = numpy.zeros((n + 1, n + 1)); K[i + 1, i + 1] = 1.0
            ops.append(Operator(data=K))
        sbi = SystemBathInteraction(ops, cm)
        with qr.energy_units("int"):
            ham = qr.Hamiltonian(data=gens.site_hamiltonian_int(spec).copy())
        ctx.label("foerster:bath-reassigned")
        return numpy.array(FoersterRateMatrix(ham, sbi).data)
    ok, KF = guarded(ctx, "foerster-rates", in_units(foerster))
    if ok:
        sc = max(1e-12, float(numpy.max(numpy.abs(KF))))
        ctx.close("foerster-rates/column-sums", numpy.sum(KF, axis=0), numpy.zeros(n + 1), rtol=0, atol=1e-9 * sc)
        tt = numpy.arange(int(nt)) * dtt
        g = [orc.lineshape_g(tt, orc.ob_exponentials(b["reorg"] * orc.CM2INT, b["cortime"], T, b["matsubara"]))
             for b in spec["bath"]]
        for a in range(n):
            for b in range(a + 1, n):
                if spec["J"][a][b] == 0:
                    continue
                ea = (spec["E"][a] - spec["bath"][a]["reorg"] - (LAM_U if comp == a else 0.0)) * orc.CM2INT
                eb = (spec["E"][b] - spec["bath"][b]["reorg"] - (LAM_U if comp == b else 0.0)) * orc.CM2INT
                kab, kba = KF[a + 1, b + 1], KF[b + 1, a + 1]          # a <- b and b <- a
                x = (ea - eb) / kT
                # "within the accuracy of the numerical integration": the overlap integral must have converged on the
                # time axis (integrand decayed below 1e-3) and must not be the result of heavy cancellation (rate at
                # least 1/20 of the integral of the modulus); the oracle evaluates both from the closed-form g(t)
                env = numpy.abs(numpy.exp(-g[a] - g[b]))
                M = 2.0 * float(numpy.trapezoid(env, tt)) * (spec["J"][a][b] * orc.CM2INT) ** 2
                # error model: a rate is what is left of an oscillating integral whose modulus integrates to M; the
                # relative quadrature error of the rate grows with the cancellation M/k.  Measured on 2185 pairs of the
                # unchanged tree: |ratio deviation| <= 0.0038 * (M/k_ab + M/k_ba); allowed = 1 % + 0.006 * that sum
                S = (M / kab + M / kba) if min(kab, kba) > 0 else float("inf")
                if comp is not None:
                    # (the additional mode only lowers the modulus of the integrand, so M is an upper estimate; its
                    # oscillation adds to the quadrature error: twice the model plus 3 %, inside a narrower window)
                    if env[-1] < 1e-3 and S <= 20:
                        ctx.bound("foerster-rates/detailed-balance", abs((kab / kba) / math.exp(-x) - 1.0),
                                  0.05 + 0.012 * S, where="composite-bath", T=T, dE_cm=spec["E"][a] - spec["E"][b],
                                  cancellation=round(S, 1))
                    else:
                        ctx.label("foerster-db:outside-quadrature-window")
                elif env[-1] < 1e-3 and S <= 40:
                    ctx.bound("foerster-rates/detailed-balance", abs((kab / kba) / math.exp(-x) - 1.0), 0.01 + 0.006 * S, T=T,
                              dE_cm=spec["E"][a] - spec["E"][b], cancellation=round(S, 1))
                else:
                    ctx.label("foerster-db:outside-quadrature-window")


def _check_bath(case, ctx):
    import quantarhei as qr
    T = case["T"]
    kT = orc.KB_INT * T
    ctx.label("bath:" + case["ftype"])
    ctx.mark_nontrivial(True)
    ta = qr.TimeAxis(0.0, case["nt"], case["dt"])
    if case["ftype"] == "OverdampedBrownian":
        params = dict(ftype="OverdampedBrownian", reorg=float(case["reorg"]), cortime=float(case["cortime"]), T=float(T),
                      matsubara=20)
    elif case["ftype"] == "B777-alternative":
        params = dict(ftype="B777", reorg=float(case["reorg"]), alternative_form=True, gamma=0.01, T=float(T))
    elif case["ftype"] == "CP29":
        params = dict(ftype="CP29", reorg=float(case["reorg"]), gamma=0.01, T=float(T))
    else:
        params = dict(ftype="UnderdampedBrownian", reorg=float(case["reorg"]), freq=float(case["freq"]),
                      gamma=1.0 / float(case["cortime"]), T=float(T))

    own_axis = bool(case.get("own_axis")) and case["ftype"] in ("OverdampedBrownian", "UnderdampedBrownian")
    if own_axis:
        ctx.label("bath:own-frequency-axis-without-zero")

    def build():
        if own_axis:
            N = 2 * int(case["nt"])
            dw = math.pi / (case["nt"] * case["dt"])
            with qr.energy_units("int"):
                fax = qr.FrequencyAxis(-(N // 2 - 0.5) * dw, N, dw)
            with qr.energy_units("1/cm"):
                sd = qr.SpectralDensity(fax, params)
        else:
          with qr.energy_units("1/cm"):
            sd = qr.SpectralDensity(ta, params)
        # the derived function may be requested while any energy units are current
        if case.get("ft_units"):
            with qr.energy_units(case["ft_units"]):
                ft = sd.get_FTCorrelationFunction(temperature=float(T))
        else:
            ft = sd.get_FTCorrelationFunction(temperature=float(T))
        with qr.energy_units("int"):
            return numpy.array(sd.axis.data), numpy.array(sd.data), numpy.array(ft.axis.data), numpy.array(ft.data)
    ok, r = guarded(ctx, "bath-functions", build, case["ftype"])
    if not ok:
        return
    w, J, w2, Cw = r
    if case.get("second_component") and case["ftype"] == "OverdampedBrownian":
        # a composite density (two overdamped components): the correlation function derived from it reports the sum of
        # the reorganisation energies (this is the lambda that enters the relaxed site energies of Foerster theory)
        lam2 = float(case["second_component"])

        def composite():
            with qr.energy_units("1/cm"):
                sd2 = qr.SpectralDensity(ta, [dict(params), dict(params, reorg=lam2, cortime=float(case["cortime"]) + 30.0)])
            cf2 = sd2.get_CorrelationFunction(temperature=float(T))
            return float(sd2.lamb), float(cf2.lamb)
        ok, ll = guarded(ctx, "sd-to-cf", composite, "composite")
        if ok:
            want_l = (float(case["reorg"]) + lam2) * orc.CM2INT
            ctx.close("sd-to-cf/summed-reorganisation-energy", ll[0], want_l, rtol=1e-7, where="density")
            ctx.close("sd-to-cf/summed-reorganisation-energy", ll[1], want_l, rtol=1e-7, where="derived-correlation-function")
    if case.get("sd_T_offset") and case["ftype"] in ("OverdampedBrownian", "UnderdampedBrownian"):
        # the correlation function derived from a spectral density at temperature T is a function of J and T only: a
        # temperature that the spectral density carries itself does not enter when another one is asked for
        def derived(T_own):
            with qr.energy_units("1/cm"):
                sd = qr.SpectralDensity(ta, dict(params, T=float(T_own)))
            cf = sd.get_CorrelationFunction(temperature=float(T))
            return numpy.array(cf.data), float(cf.temperature)
        ok1, a = guarded(ctx, "sd-to-cf", lambda: derived(T + case["sd_T_offset"]), case["ftype"])
        ok2, b = guarded(ctx, "sd-to-cf", lambda: derived(T), case["ftype"])
        if ok1 and ok2:
            ctx.close("sd-to-cf/requested-temperature-decides", a[0], b[0], rtol=1e-9,
                      scale=max(1e-300, float(numpy.max(numpy.abs(b[0])))), where=case["ftype"], T=T,
                      T_of_density=T + case["sd_T_offset"])
            ctx.close("sd-to-cf/temperature-attribute", a[1], float(T), rtol=1e-12, where=case["ftype"])
    # oddness on the symmetric part of the axis: find partner of each frequency.  The frequency axis is symmetric only
    # up to rounding (w[k] + w[kk] ~ 1e-13), and an underdamped mode whose damping is far below the grid spacing makes
    # J change by 1e5 of itself per unit frequency: the comparison allows for what the closed-form J changes between
    # w[k] and -w[kk] (this only measures the sensitivity; the values compared are the library's)
    n = len(w)
    sc = max(1e-12, float(numpy.max(numpy.abs(J))))
    lam_i = float(case["reorg"]) * orc.CM2INT
    if case["ftype"] == "OverdampedBrownian":
        def Jo(x):
            return orc.ob_spectral_density(x, lam_i, float(case["cortime"]))
    elif case["ftype"] in ("B777-alternative", "CP29"):
        # smooth model densities: the library's own values, linearly interpolated, measure the sensitivity
        def Jo(x):
            return numpy.interp(x, w, J)
    else:
        w0_i = float(case["freq"]) * orc.CM2INT
        g_i = (1.0 / float(case["cortime"])) * orc.CM2INT      # given inside the 1/cm context: converted as an energy
        def Jo(x):
            return 2.0 * lam_i * g_i * w0_i ** 2 * x / ((x * x - w0_i ** 2) ** 2 + x * x * g_i ** 2)
    worst = 0.0          # in units of the allowed deviation
    worst_db = 0.0       # in units of the allowed deviation
    pairs = 0
    for k in range(n):
        kk = int(numpy.argmin(numpy.abs(w + w[k])))
        if abs(w[kk] + w[k]) > 1e-9 * max(1.0, abs(w[k])):
            continue
        pairs += 1
        sens = abs(Jo(w[k]) - Jo(-w[kk]))
        worst = max(worst, abs(J[k] + J[kk]) / (1e-8 * sc + 4.0 * sens))
        x = w2[k] / kT
        if 0 < x < 30 and abs(Cw[k]) > 1e-9 * float(numpy.max(numpy.abs(Cw))):
            # C(-w) = (1 + coth(-x/2)) J(-w) is a difference of nearly equal numbers: its relative rounding error is
            # about eps*exp(x); the paired frequencies agree to 1e-9 relative
            allowed = 1e-8 + 2e-15 * math.exp(x) + 4.0 * sens / max(abs(Jo(w[k])), 1e-300)
            worst_db = max(worst_db, abs(Cw[kk] / Cw[k] / math.exp(-x) - 1.0) / allowed)
    if pairs < n // 2:
        ctx.fail("spectral-density/axis-not-symmetric", case["ftype"], pairs=pairs, n=n)
        return
    ctx.bound("spectral-density/odd", worst, 1.0, where=case["ftype"])
    ctx.bound("ft-correlation-function/detailed-balance", worst_db, 1.0, where=case["ftype"], T=T)
