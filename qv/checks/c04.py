"""C04  Basis-change contexts are transparent and self-restoring.

A case is a generated *program*: a tree of statements (create / read / write /
apply / propagate / bad write / raise / nested `with eigenbasis_of(op)`),
interpreted with real `with` statements.  Oracle: a reference model that keeps
every object's value in the outermost basis plus the stack of transformation
matrices (taken from the Manager only after validating them against the
definition: unitary, diagonalising the context operator, ascending).
"""
import numpy
from hypothesis import strategies as st

from .. import oracles as orc
from ..core import HarnessError

ID = "C04"
TECHNIQUE = ("Hypothesis-generated programs (nested contexts, object creation/read/write/apply/propagate, exceptions at "
             "generated points) interpreted on the real library and on a reference model of outer-basis values plus a "
             "stack of validated transformation matrices")
LEVEL = ("(Also: time-dependent relaxation tensors, objects derived inside contexts with evolution.at() / get_component(), constructor calls that the library refuses, the basis operator of the enclosing context as part of the bookkeeping.) Programs of depth <= 4 over operators, self-adjoint operators, Hamiltonians, density matrices, transition "
         "dipole moments, superoperators, Lindblad forms (operator and tensor form) and density-matrix evolutions are "
         "run with real `with eigenbasis_of(...)` statements, with private exceptions and library TypeErrors raised at "
         "generated statements and unwound through one or two levels. Every read inside a context must equal the "
         "reference transformed with the validated matrices (which implies equal traces, spectra, tr(A rho), tensor "
         "action and propagated dynamics); the context operator must be diagonal ascending; after every exit the "
         "Manager bookkeeping equals the snapshot taken before entry and every object read afterwards equals its "
         "reference in the enclosing basis, including objects created inside."
         " Later additions: deterministic grid of kinds x flags x context operators; protection applied inside a context; secularize() as a statement; context objects entered again while active; refused dipole-operator constructions. Round five: a time-dependent Redfield tensor converted to tensor form and then presented in another basis.")
NOTE = ("Context operators are real symmetric or complex Hermitian (incl. degenerate, already diagonal, repeated). With "
        "complex Hermitian contexts only operators, Hamiltonians, density matrices and closed-system evolutions are "
        "generated: SuperOperator.transform documents a float matrix, and dipole moments / Lindblad operators are "
        "stored as real arrays. Protection is generated only in the library's own pattern (protect before entering, "
        "unprotect after leaving, at top level only; the protected operator is not read inside). dim 2..4.")
RULE = ("program = base pool (one operator, self-adjoint operator, Hamiltonian, density matrix) + statements; indices "
        "are resolved modulo the eligible objects at interpretation time (construction, not rejection). Non-trivial: "
        "nesting depth >= 2 or an exceptional exit, and >= 1 object created inside a context, and >= 1 first-time "
        "read inside a context.")
ASSUMPTIONS = [
    "the matrices in Manager().basis_transformations are used by the model only after being validated against the "
    "definition (S+S = 1, S+ op S diagonal ascending); a wrong matrix is itself reported",
    "data supplied inside a context is interpreted in the basis of that context",
]
BUDGET = {"quick": (500, 75), "thorough": (3000, 600)}

KINDS_REAL = ["op", "sa", "ham", "dm", "tdm", "sop", "lind_op", "lind_tensor", "tdsop"]
KINDS_CPLX = ["op", "sa", "ham", "dm"]


class Abort(Exception):
    def __init__(self, levels):
        Exception.__init__(self)
        self.levels = levels


def _stmts(depth, dim, top=False):
    ints = st.lists(st.integers(-4, 4), min_size=2 * dim * dim, max_size=2 * dim * dim)
    idx = st.integers(0, 30)
    create = st.builds(lambda k, d, f: {"s": "create", "kind": k, "data": d, "flag": f},
                       st.integers(0, 8), ints, st.integers(0, 3))
    read = st.builds(lambda o: {"s": "read", "o": o}, idx)
    write = st.builds(lambda o, d, e: {"s": "write", "o": o, "data": d, "elem": e}, idx, ints, st.booleans())
    apply_ = st.builds(lambda t, o: {"s": "apply", "t": t, "o": o}, idx, idx)
    prop = st.builds(lambda h, r, l: {"s": "prop", "h": h, "r": r, "l": l}, idx, idx, st.none() | idx)
    # objects derived from others: the state of an evolution at a time, a Cartesian component of a dipole operator
    derive = st.builds(lambda o, k: {"s": "derive", "o": o, "k": k}, idx, st.integers(0, 3))
    # an object that has been used inside the current context is put into protected mode there (its representation is
    # frozen); the program takes the protection off again right after that context has been left
    protect_in = st.builds(lambda o: {"s": "protect_inside", "o": o}, idx)
    # secularize() of a relaxation tensor in the current basis
    secul = st.builds(lambda o: {"s": "secularize", "o": o}, idx)
    exc = st.one_of(st.builds(lambda o: {"s": "badwrite", "o": o}, idx),
                    # a constructor call that the library refuses (non-square data), caught by the program
                    st.just({"s": "badctor"}),
                    # an operator of another dimension read inside a context: refused, must leave no trace
                    st.just({"s": "badread"}),
                    st.builds(lambda n: {"s": "raise", "levels": n}, st.sampled_from([1, 1, 2])))
    # weights: exceptional statements end a block, keep them rare (about one in twelve leaves)
    leaf = st.integers(0, 15).flatmap(
        lambda k: exc if k == 0 else (create if k <= 3 else (read if k <= 6 else (write if k <= 8 else
                                                                                  (apply_ if k <= 10 else
                                                                                   (prop if k <= 12 else
                                                                                    (derive if k == 13 else
                                                                                     (protect_in if k == 14 else secul))))))))
    if depth <= 0:
        return st.lists(leaf, min_size=1, max_size=5)
    inner = _stmts(depth - 1, dim)
    # "reenter": the context *object* is entered a second time while it is active (the nested block only reads)
    with_ = st.builds(lambda o, p, b, c, r: {"s": "with", "o": o, "protect": p, "body": b, "check": c, "reenter": r},
                      idx, st.sampled_from([False, False, False, True]), inner, st.integers(0, 255),
                      st.sampled_from([False, False, False, True]))
    body = st.lists(st.one_of(leaf, leaf, with_), min_size=1, max_size=5)
    if top:
        # a program always contains at least one context
        return st.tuples(st.lists(leaf, max_size=2), with_, body).map(lambda t: t[0] + [t[1]] + t[2])
    return body


@st.composite
def _program(draw, maxdepth):
    dim = draw(st.integers(2, 4))
    cplx = draw(st.sampled_from([False, False, True]))
    ints = st.lists(st.integers(-4, 4), min_size=2 * dim * dim, max_size=2 * dim * dim)
    base = [draw(ints) for _ in range(4)]
    degenerate = draw(st.sampled_from([0, 0, 1, 2]))
    body = draw(_stmts(draw(st.integers(1, maxdepth)), dim, top=True))
    return {"dim": dim, "cplx": cplx, "base": base, "degenerate": degenerate, "body": body}


def strategy(tier):
    return _program(3 if tier == "quick" else 4)


def _grid_ints(dim, salt):
    return [(((i * 7 + salt * 3 + 11) * 13 + (i * i) % 5) % 9) - 4 for i in range(2 * dim * dim)]


def grid(tier):
    for gap, J in ((200, 90), (60, -140)):
        yield {"kind": "tdredfield", "gap": gap, "J": J, "where": "outside"}
    yield from _grid_programs(tier)


def _grid_programs(tier):
    """Deterministic small programs: every object kind and constructor flag, created outside and inside a context of
    every kind of context operator, read inside one and two contexts and after leaving them (so that no kind depends on
    the luck of the seed)."""
    for dim in ((3,) if tier == "quick" else (3, 4)):
        base = [_grid_ints(dim, 20 + b) for b in range(4)]
        for k in range(9):
            for f in range(4):
                for ci in range(3):                       # context operator: self-adjoint, Hamiltonian, density matrix
                    inner = {"s": "with", "o": (ci + 1) % 3, "protect": False, "check": 255,
                             "body": [{"s": "read", "o": 4}, {"s": "read", "o": 5}]}
                    body = [{"s": "create", "kind": k, "data": _grid_ints(dim, k + 9 * f), "flag": f},
                            {"s": "with", "o": ci, "protect": False, "check": 255,
                             "body": [{"s": "read", "o": 4},
                                      {"s": "create", "kind": k, "data": _grid_ints(dim, k + 9 * f + 1), "flag": f},
                                      {"s": "read", "o": 5}, inner, {"s": "read", "o": 4}]},
                            {"s": "read", "o": 4}, {"s": "read", "o": 5}]
                    yield {"dim": dim, "cplx": False, "base": base, "degenerate": 0, "body": body}
        # protection applied inside a context (every protectable kind, every context operator), followed by a context of
        # another operator; secularisation of a tensor as the first thing done with it inside a context
        for ci in range(3):
            for o in range(4):
                body = [{"s": "with", "o": ci, "protect": False, "check": 255,
                         "body": [{"s": "protect_inside", "o": o},
                                  {"s": "with", "o": (ci + 1) % 3, "protect": False, "check": 255,
                                   "body": [{"s": "read", "o": (o + 1) % 4}]}]},
                        {"s": "read", "o": o},
                        {"s": "with", "o": (ci + 2) % 3, "protect": False, "check": 255, "body": [{"s": "read", "o": o}]}]
                yield {"dim": dim, "cplx": False, "base": base, "degenerate": 0, "body": body}
            for k in (7, 8):
                body = [{"s": "create", "kind": k, "data": _grid_ints(dim, 40 + k), "flag": 0},
                        {"s": "with", "o": ci, "protect": False, "check": 255,
                         "body": [{"s": "secularize", "o": 0}, {"s": "read", "o": 4}]},
                        {"s": "read", "o": 4}, {"s": "secularize", "o": 0}]
                yield {"dim": dim, "cplx": False, "base": base, "degenerate": 0, "body": body}


# ---------------------------------------------------------------------------
# object construction from integer data
# ---------------------------------------------------------------------------

def _cmat(data, dim):
    a = numpy.array(data[:dim * dim], dtype=float).reshape(dim, dim)
    b = numpy.array(data[dim * dim:2 * dim * dim], dtype=float).reshape(dim, dim)
    return a + 1j * b


def _value(kind, data, dim, cplx, flag, degenerate=0):
    """The array handed to the constructor (in the basis current at creation)."""
    M = _cmat(data, dim)
    if kind == "op":
        return M if cplx or flag % 2 else M.real.astype(complex)
    if kind == "sa":
        H = (M + M.conj().T) if cplx else (M.real + M.real.T).astype(complex)
        if degenerate == 1:
            H[0, :] = 0; H[:, 0] = 0; H[1, :] = 0; H[:, 1] = 0; H[0, 0] = H[1, 1] = 2.0       # repeated eigenvalue
        elif degenerate == 2:
            H = numpy.diag(numpy.diag(H).real).astype(complex)                                 # already diagonal
        return H
    if kind == "ham":
        H = (M.real + M.real.T) / 10.0
        if flag == 2:
            # (the variant whose weak couplings are split off: at least one coupling below the cut-off)
            H[0, dim - 1] = H[dim - 1, 0] = 0.1
        return H
    if kind == "dm":
        A = M if cplx else M.real.astype(complex)
        rho = A @ A.conj().T
        tr = numpy.trace(rho).real
        if tr == 0:
            rho = numpy.eye(dim, dtype=complex); tr = float(dim)
        return rho / tr
    if kind == "tdm":
        out = numpy.zeros((dim, dim, 3))
        out[:, :, 0] = M.real + M.real.T
        out[:, :, 1] = M.imag + M.imag.T
        out[:, :, 2] = (M.real + M.imag) + (M.real + M.imag).T
        return out
    if kind == "sop":
        R = numpy.zeros((dim, dim, dim, dim))
        s = int(abs(M.real).sum())
        for a in range(dim):
            for b in range(dim):
                for c in range(dim):
                    for d in range(dim):
                        R[a, b, c, d] = ((a * 7 + b * 3 + c * 5 + d * 11 + s + int(M.real[a, c])) % 5) - 2
        return R
    if kind == "tdsop":
        # a time-dependent relaxation tensor: three time slices of a four-index tensor
        return numpy.array([_value("sop", [x + k for x in data], dim, cplx, flag) * (k + 1.0) for k in range(3)])
    raise HarnessError("kind " + kind)


def _lind_parts(data, dim):
    M = _cmat(data, dim)
    K1 = M.real / 2.0
    K2 = numpy.zeros((dim, dim)); K2[int(abs(M.imag[0, 0])) % dim, int(abs(M.imag[0, 1])) % dim] = 1.0
    rates = [0.01 * (1 + int(abs(M.imag[1, 0]))), 0.02]
    return [K1, K2], rates


def _lind_tensor(Ks, rates):
    """4-index GKSL dissipator for (possibly transformed, possibly complex) operators K with K+ := conj transpose."""
    dim = Ks[0].shape[0]
    I = numpy.eye(dim)
    R = numpy.zeros((dim, dim, dim, dim), dtype=complex)
    for K, g in zip(Ks, rates):
        KdK = K.conj().T @ K
        R += g * (numpy.einsum("ac,bd->abcd", K, K.conj()) - 0.5 * numpy.einsum("ac,bd->abcd", KdK, I)
                  - 0.5 * numpy.einsum("ac,db->abcd", I, KdK))
    return R


# ---------------------------------------------------------------------------
# the interpreter
# ---------------------------------------------------------------------------

class Obj(object):
    def __init__(self, kind, live, ref, extra=None):
        self.kind, self.live, self.ref, self.extra = kind, live, ref, extra or {}
        self.protected = False
        self.touched_inside = False
        self.frozen = None              # (representation, nesting level) of an object protected inside a context


class Machine(object):
    def __init__(self, case, ctx, qr):
        self.case, self.ctx, self.qr = case, ctx, qr
        self.dim, self.cplx = case["dim"], case["cplx"]
        self.pool = []
        self.T = [numpy.eye(self.dim, dtype=complex)]       # total transformation per level
        self.depth_max = 0
        self.created_inside = 0
        self.first_reads_inside = 0
        self.exceptional_exits = 0
        self.active_ops = []            # context operators of the contexts that are open
        self.dead = False

    # -- model helpers ------------------------------------------------------
    def cur(self, ref, kind, T=None):
        """Representation of the outer-basis value `ref` in the current basis."""
        T = self.T[-1] if T is None else T
        Ti = T.conj().T
        if kind in ("op", "sa", "ham", "dm"):
            return Ti @ ref @ T
        if kind == "tdm":
            return numpy.stack([Ti @ ref[:, :, i] @ T for i in range(3)], axis=2)
        if kind == "evol":
            return numpy.array([Ti @ r @ T for r in ref])
        if kind in ("sop", "lind_tensor"):
            # real orthogonal T in these programs
            return numpy.einsum("ia,jb,ijkl,kc,ld->abcd", T.conj(), T, ref, T, T.conj())
        if kind == "tdsop":
            return numpy.array([numpy.einsum("ia,jb,ijkl,kc,ld->abcd", T.conj(), T, r, T, T.conj()) for r in ref])
        raise HarnessError("kind " + kind)

    def to_outer(self, val, kind):
        T = self.T[-1]
        Ti = T.conj().T
        if kind in ("op", "sa", "ham", "dm"):
            return T @ val @ Ti
        if kind == "tdm":
            return numpy.stack([T @ val[:, :, i] @ Ti for i in range(3)], axis=2)
        if kind in ("sop", "lind_tensor"):
            return numpy.einsum("ai,bj,ijkl,ck,dl->abcd", T, T.conj(), val, T.conj(), T)
        if kind == "tdsop":
            return numpy.array([numpy.einsum("ai,bj,ijkl,ck,dl->abcd", T, T.conj(), v, T.conj(), T) for v in val])
        raise HarnessError("kind " + kind)

    def scale(self, ref):
        return max(1.0, float(numpy.max(numpy.abs(ref))))

    # -- creation -----------------------------------------------------------
    def create(self, kind, data, flag=0, degenerate=0):
        qr = self.qr
        from quantarhei.qm import (Operator, SelfAdjointOperator, DensityMatrix, ReducedDensityMatrix,
                                   TransitionDipoleMoment, SuperOperator, LindbladForm, SystemBathInteraction)
        dim = self.dim
        inside = len(self.T) > 1
        if kind in ("lind_op", "lind_tensor"):
            Ks, rates = _lind_parts(data, dim)
            hams = [o for o in self.pool if o.kind == "ham" and not o.protected]
            with qr.energy_units("int"):
                ham = hams[0].live if hams else qr.Hamiltonian(data=numpy.zeros((dim, dim)))
            sbi = SystemBathInteraction([Operator(data=K.copy()) for K in Ks], rates=tuple(rates))
            live = LindbladForm(ham, sbi, as_operators=(kind == "lind_op"))
            T = self.T[-1]
            Ks0 = [T @ K @ T.conj().T for K in Ks]
            ref = _lind_tensor(Ks0, rates)
            obj = Obj(kind, live, ref, {"Ks0": Ks0, "rates": rates})
        else:
            val = _value(kind, data, dim, self.cplx, flag, degenerate)
            split_jr = None
            if kind == "op":
                live = Operator(data=val.copy())
            elif kind == "sa":
                live = SelfAdjointOperator(data=val.copy())
            elif kind == "ham":
                with qr.energy_units("int"):
                    live = qr.Hamiltonian(data=val.copy())
                    if flag == 2 and not inside and not self.cplx:
                        # weak couplings split off (remove_cutoff_coupling): the remainder travels with the object
                        cut = 0.15
                        live.remove_cutoff_coupling(cut)
                        jr = numpy.where((numpy.abs(val) < cut) & ~numpy.eye(dim, dtype=bool), val, 0.0)
                        val = val - jr
                        split_jr = jr
            elif kind == "dm":
                live = (ReducedDensityMatrix if flag % 2 else DensityMatrix)(data=val.copy())
            elif kind == "tdm":
                live = TransitionDipoleMoment(data=val.copy())
            elif kind == "sop":
                live = SuperOperator(data=val.copy())
            elif kind == "tdsop":
                from quantarhei.qm.liouvillespace.relaxationtensor import RelaxationTensor
                # (the generic relaxation tensor that the time-dependent Foerster-type tensors inherit their basis
                # handling from; its subclasses set `dim` from their Hamiltonian)
                live = RelaxationTensor()
                live.dim = dim
                live.data = val.copy()
            obj = Obj(kind, live, self.to_outer(val, kind))
            if kind == "ham" and split_jr is not None:
                obj.extra["JR"] = numpy.array(split_jr, dtype=complex)
                self.ctx.label("create:ham-with-remainder-coupling")
        if inside:
            self.created_inside += 1
            obj.touched_inside = True
        self.pool.append(obj)
        return obj

    # -- reads ----------------------------------------------------------------
    def live_value(self, obj):
        qr = self.qr
        if obj.kind == "ham":
            with qr.energy_units("int"):
                return numpy.array(obj.live.data)
        if obj.kind == "lind_op":
            return None
        return numpy.array(obj.live.data)

    def read(self, obj, clause, where=None):
        """Compare the object's presented value with the model in the current basis."""
        if obj.protected or self.dead:
            return
        ctx = self.ctx
        where = where or obj.kind
        inside = len(self.T) > 1
        if inside and not obj.touched_inside:
            self.first_reads_inside += 1
        if inside:
            obj.touched_inside = True
        try:
            if obj.kind == "lind_op":
                T = self.T[-1]
                Ti = T.conj().T
                Km = numpy.array(obj.live.Km)
                Lm = numpy.array(obj.live.Lm)
                Ld = numpy.array(obj.live.Ld)
                for m, (K0, g) in enumerate(zip(obj.extra["Ks0"], obj.extra["rates"])):
                    Kc = Ti @ K0 @ T
                    ctx.close(clause, Km[m], Kc, rtol=1e-9, scale=self.scale(K0), where=where + "/Km")
                    ctx.close(clause, Lm[m], g * Kc / 2.0, rtol=1e-9, scale=self.scale(K0), where=where + "/Lm")
                    ctx.close(clause, Ld[m], (g * Kc / 2.0).conj().T, rtol=1e-9, scale=self.scale(K0), where=where + "/Ld")
                return
            got = self.live_value(obj)
        except Exception as e:
            ctx.fail(clause + "/read-raises", where, exc=type(e).__name__, msg=str(e)[:150], depth=len(self.T) - 1)
            self.dead = True
            return
        want = self.cur(obj.ref, obj.kind)
        if not ctx.close(clause, got, want, rtol=1e-9, scale=self.scale(obj.ref), where=where, depth=len(self.T) - 1):
            self.dead = True
            return
        if obj.kind == "ham" and obj.extra.get("JR") is not None and getattr(obj.live, "_has_remainder_coupling", False):
            # the split-off couplings are presented in the same basis as the Hamiltonian itself
            if not ctx.close(clause, numpy.array(obj.live.JR), self.cur(obj.extra["JR"], "ham"), rtol=1e-9, scale=1.0,
                             where=where + "/remainder-coupling", depth=len(self.T) - 1):
                self.dead = True

    # -- statements -------------------------------------------------------------
    def pick(self, i, kinds, as_context=False):
        cand = [o for o in self.pool if o.kind in kinds and not o.protected]
        if as_context and not self.cplx:
            # in programs with real contexts a state taken out of an evolution (complex valued) does not define one
            cand = [o for o in cand if not o.extra.get("complex_valued")]
        return cand[i % len(cand)] if cand else None

    def run_block(self, block):
        for stm in block:
            if self.dead:
                return
            try:
                self.exec(stm)
            except (Abort, HarnessError):
                raise
            except TypeError:
                if stm["s"] == "badwrite":
                    raise                    # the documented refusal; it leaves the enclosing context
                self.ctx.fail("statement/raises", stm["s"], exc="TypeError", depth=len(self.T) - 1)
                self.dead = True
            except Exception as e:            # every other statement is a legal use of the library
                self.ctx.fail("statement/raises", stm["s"], exc=type(e).__name__, msg=str(e)[:150],
                              depth=len(self.T) - 1)
                self.dead = True

    def exec(self, stm):
        qr = self.qr
        ctx = self.ctx
        s = stm["s"]
        dim = self.dim
        kinds = KINDS_CPLX if self.cplx else KINDS_REAL
        if s == "create":
            kind = kinds[stm["kind"] % len(kinds)]
            self.create(kind, stm["data"], stm["flag"])
            ctx.label("create:" + kind)
        elif s == "read":
            obj = self.pick(stm["o"], kinds + ["evol"])
            if obj:
                self.read(obj, "inside-presentation" if len(self.T) > 1 else "outside-value")
        elif s == "write":
            obj = self.pick(stm["o"], ["op", "sa", "ham", "dm", "sop"] if not self.cplx else ["op", "sa", "ham", "dm"])
            if not obj:
                return
            new = _value(obj.kind, stm["data"], dim, self.cplx, 1)
            if len(self.T) > 1:
                obj.touched_inside = True
            if stm["elem"] and obj.kind in ("op", "sop"):
                # element write through the getter
                cur = self.live_value(obj)
                if obj.kind == "op":
                    obj.live.data[0, dim - 1] = new[0, dim - 1]
                    cur[0, dim - 1] = new[0, dim - 1]
                else:
                    obj.live.data[0, 1, 1, 0] = new[0, 1, 1, 0]
                    cur[0, 1, 1, 0] = new[0, 1, 1, 0]
                obj.ref = self.to_outer(cur, obj.kind)
                ctx.label("write:elem")
            else:
                if obj.kind == "ham":
                    with qr.energy_units("int"):
                        obj.live.data = new.copy()
                else:
                    obj.live.data = new.copy()
                obj.ref = self.to_outer(new, obj.kind)
                ctx.label("write:whole:" + obj.kind)
        elif s == "badwrite":
            obj = self.pick(stm["o"], ["op", "sa", "dm", "sop"] if not self.cplx else ["op", "sa", "dm"])
            if not obj:
                return
            if len(self.T) > 1:
                obj.touched_inside = True
            ctx.label("badwrite")
            if len(self.T) == 1:
                # outside any context: the refusal is caught here, the object must stay intact
                try:
                    obj.live.data = "this is not an array"
                    ctx.fail("badwrite-accepted", obj.kind)
                except TypeError:
                    pass
                return
            obj.live.data = "this is not an array"      # the library raises TypeError, which leaves the context
            ctx.fail("badwrite-accepted", obj.kind)
        elif s == "badread":
            from quantarhei.qm import Operator
            if not hasattr(self, "alien"):
                return
            ctx.label("badread:inside" if len(self.T) > 1 else "badread:outside")
            if len(self.T) > 1:
                try:
                    self.alien.data
                    ctx.fail("badread-accepted", "op")
                except Exception:
                    pass
            else:
                # outside any context the alien operator reads as it was created
                if not numpy.array_equal(numpy.array(self.alien.data), self.alien_ref):
                    ctx.fail("outside-value", "alien-operator")
        elif s == "badctor":
            from quantarhei.qm import Operator
            ctx.label("badctor:inside" if len(self.T) > 1 else "badctor:outside")
            try:
                Operator(data=numpy.zeros((2, 3)))
                ctx.fail("badctor-accepted", "op")
            except Exception:
                pass             # refused; the program goes on inside the same context
            if not self.cplx:
                from quantarhei.qm import SuperOperator
                try:
                    SuperOperator(data=numpy.zeros((2, 2, 2)))
                    ctx.fail("badctor-accepted", "sop")
                except Exception:
                    pass
                SuperOperator()      # an empty superoperator that never receives data
                from quantarhei.qm import TransitionDipoleMoment
                for bad in (numpy.zeros((3, 3)), numpy.arange(27.0).reshape(3, 3, 3)):
                    try:
                        TransitionDipoleMoment(data=bad)
                        ctx.fail("badctor-accepted", "tdm")
                    except Exception:
                        pass
        elif s == "raise":
            if len(self.T) > 1:
                raise Abort(stm["levels"])
        elif s == "apply":
            if self.cplx:
                return
            ten = self.pick(stm["t"], ["sop", "lind_op", "lind_tensor"])
            obj = self.pick(stm["o"], ["op", "dm"])
            if not ten or not obj:
                return
            if len(self.T) > 1:
                ten.touched_inside = True
                obj.touched_inside = True
            try:
                res = ten.live.apply(obj.live)
            except Exception as e:
                ctx.fail("apply/raises", ten.kind, exc=type(e).__name__, msg=str(e)[:150])
                self.dead = True
                return
            ref = numpy.tensordot(ten.ref, obj.ref)
            new = Obj("op", res, ref)
            new.touched_inside = len(self.T) > 1
            if len(self.T) > 1:
                self.created_inside += 1
            self.pool.append(new)
            ctx.label("apply:" + ten.kind)
            self.read(new, "tensor-action", where="apply:" + ten.kind)
        elif s == "prop":
            from quantarhei.qm import ReducedDensityMatrixPropagator
            ham = self.pick(stm["h"], ["ham"])
            rho = self.pick(stm["r"], ["dm"])
            lind = None if (self.cplx or stm["l"] is None) else self.pick(stm["l"], ["lind_op", "lind_tensor"])
            if not ham or not rho:
                return
            nt, dt = 4, 0.1
            ta = qr.TimeAxis(0.0, nt, dt)
            for o in (ham, rho, lind):
                if o is not None and len(self.T) > 1:
                    o.touched_inside = True
            try:
                if lind is None:
                    prop = ReducedDensityMatrixPropagator(ta, ham.live)
                else:
                    prop = ReducedDensityMatrixPropagator(ta, ham.live, lind.live)
                rt = prop.propagate(rho.live)
            except Exception as e:
                ctx.fail("propagate/raises", "lind" if lind else "closed", exc=type(e).__name__, msg=str(e)[:150])
                self.dead = True
                return
            # reference: order-4 Taylor map of the generator built from the outer-basis references
            if lind is None:
                L = orc.liouvillian_unitary(ham.ref.astype(complex))
            else:
                L = orc.liouvillian_unitary(ham.ref.astype(complex)) + lind.ref.reshape(dim * dim, dim * dim)
            Tm = orc.taylor_map(L, dt, 4)
            v = rho.ref.reshape(-1).astype(complex)
            ref = [v.reshape(dim, dim)]
            for _ in range(nt - 1):
                v = Tm @ v
                ref.append(v.reshape(dim, dim))
            if stm["r"] % 2 == 1:
                # the same content as a plain DensityMatrixEvolution (created in the current basis)
                from quantarhei.qm.propagators.dmevolution import DensityMatrixEvolution
                from quantarhei.qm import DensityMatrix
                plain = DensityMatrixEvolution(ta, DensityMatrix(data=numpy.array(rt.data[0])))
                plain.data = numpy.array(rt.data)
                rt = plain
                ctx.label("prop:plain-evolution")
            new = Obj("evol", rt, numpy.array(ref))
            new.touched_inside = len(self.T) > 1
            if len(self.T) > 1:
                self.created_inside += 1
            self.pool.append(new)
            ctx.label("prop:" + ("lind" if lind else "closed"))
            self.read(new, "propagated-dynamics", where="evol")
        elif s == "derive":
            src = self.pick(stm["o"], ["evol", "tdm"])
            if not src or src.protected:
                return
            if len(self.T) > 1:
                src.touched_inside = True
            try:
                if src.kind == "evol":
                    ti = stm["k"] % src.ref.shape[0]
                    live = src.live.at(float(src.live.TimeAxis.data[ti]))
                    new = Obj("dm", live, numpy.array(src.ref[ti]), {"complex_valued": True})
                else:
                    n = stm["k"] % 3
                    live = src.live.get_component(n)
                    new = Obj("sa", live, numpy.array(src.ref[:, :, n]).astype(complex))
            except Exception as e:
                ctx.fail("derive/raises", src.kind, exc=type(e).__name__, msg=str(e)[:150])
                self.dead = True
                return
            new.touched_inside = len(self.T) > 1
            if len(self.T) > 1:
                self.created_inside += 1
            self.pool.append(new)
            ctx.label("derive:" + src.kind + (":inside" if len(self.T) > 1 else ":outside"))
            self.read(new, "derived-object", where=src.kind + "-derived")
        elif s == "protect_inside":
            if len(self.T) == 1:
                return
            obj = self.pick(stm["o"], ["op", "sa", "dm", "ham"])
            if obj is None or any(obj is a for a in self.active_ops) or obj.frozen is not None:
                return
            self.read(obj, "inside-presentation", where=obj.kind + "/before-protection")
            if self.dead:
                return
            obj.touched_inside = True
            X = self.cur(obj.ref, obj.kind)
            if obj.kind == "ham" and obj.extra.get("JR") is not None:
                # the split-off couplings travel with the Hamiltonian: frozen in the same representation
                obj.extra["JR_frozen"] = self.cur(obj.extra["JR"], "ham")
            obj.live.protect_basis()
            obj.protected = True
            obj.frozen = (X, len(self.T))
            ctx.label("protect-inside:" + obj.kind)
        elif s == "secularize":
            obj = self.pick(stm["o"], ["lind_tensor", "tdsop"] if not self.cplx else [])
            if obj is None:
                return
            if len(self.T) > 1:
                obj.touched_inside = True
            obj.live.secularize()
            X = self.cur(obj.ref, obj.kind)
            d = self.dim
            keep = numpy.zeros((d, d, d, d), dtype=bool)
            for a in range(d):
                for b in range(d):
                    keep[a, a, b, b] = True
                    keep[a, b, a, b] = True
            X = numpy.where(keep if X.ndim == 4 else keep[None], X, 0.0)
            obj.ref = self.to_outer(X, obj.kind)
            ctx.label("secularize:" + obj.kind + (":inside" if len(self.T) > 1 else ":outside"))
            self.read(obj, "secularized-in-current-basis", where=obj.kind)
        elif s == "with":
            self.exec_with(stm)

    def snapshot(self):
        m = self.qr.Manager()
        return (list(m.basis_stack), len(m.basis_transformations), sorted(m.basis_registered.keys()),
                bool(m._in_eigenbasis_of_context))

    def exec_with(self, stm, cm=None, op=None):
        qr, ctx = self.qr, self.ctx
        if op is None:
            op = self.pick(stm["o"], ["sa", "ham", "dm"], as_context=True)
        if op is None:
            return
        # protection only in the library's own pattern: at top level, where the stored representation of the
        # Hamiltonian is the one of the enclosing (outermost) basis
        protect = stm["protect"] and op.kind == "ham" and len(self.T) == 1
        snap = self.snapshot()
        basis_op_before = qr.Manager().current_basis_operator
        depth = len(self.T)
        self.depth_max = max(self.depth_max, depth)
        pending = None
        ctx.label("with:depth=%d" % depth, "with:" + op.kind + (":protected" if protect else ""))
        if protect:
            op.live.protect_basis()
        if cm is None:
            cm = qr.eigenbasis_of(op.live)
        try:
            with cm:
                # validate the transformation the library announces against the definition
                S = numpy.array(qr.Manager().basis_transformations[-1], dtype=complex)
                op_enclosing = self.cur(op.ref, op.kind)
                if S.shape != (self.dim, self.dim):
                    ctx.fail("transformation/shape", op.kind)
                    self.dead = True
                D = S.conj().T @ op_enclosing @ S
                ev = numpy.real(numpy.diag(D))
                sc = self.scale(op.ref)
                okS = (ctx.close("transformation/unitary", S.conj().T @ S, numpy.eye(self.dim), rtol=1e-9, scale=1.0,
                                 where=op.kind)
                       and ctx.close("transformation/diagonalises", D, numpy.diag(ev), rtol=1e-9, scale=sc, where=op.kind)
                       and ctx.bound("context-operator/ascending", float(max(0.0, numpy.max(ev[:-1] - ev[1:]))),
                                     1e-9 * sc, where=op.kind))
                if not okS:
                    self.dead = True
                self.T.append(self.T[-1] @ S)
                self.active_ops.append(op)
                if protect:
                    op.protected = True
                else:
                    op.touched_inside = True
                    self.read(op, "context-operator/diagonal", where=op.kind)
                try:
                    if stm.get("reenter") and not protect and not self.dead:
                        ctx.label("with:context-object-entered-again")
                        self.exec_with({"s": "with", "o": stm["o"], "protect": False, "check": stm["check"],
                                        "body": [{"s": "read", "o": stm["o"]}]}, cm=cm, op=op)
                    self.run_block(stm["body"])
                finally:
                    self.T.pop()
                    self.active_ops.pop()
                    op.protected = False
        except Abort as e:
            self.exceptional_exits += 1
            ctx.label("exit:private-exception")
            if e.levels > 1 and depth > 1:
                pending = Abort(e.levels - 1)
        except TypeError:
            self.exceptional_exits += 1
            ctx.label("exit:library-TypeError")
        except HarnessError:
            raise
        except Exception as e:
            ctx.fail("context/raises", op.kind, exc=type(e).__name__, msg=str(e)[:150], depth=depth)
            self.dead = True
        if protect:
            op.live.unprotect_basis()
        for o in self.pool:
            if o.frozen is not None and o.frozen[1] == depth + 1:
                # protected inside the context that has just been left: its frozen representation now stands for the
                # object in the enclosing basis
                X, _ = o.frozen
                o.frozen = None
                try:
                    o.live.unprotect_basis()
                except Exception as e:
                    ctx.fail("unprotect/raises", o.kind, exc=type(e).__name__, msg=str(e)[:120])
                    self.dead = True
                o.protected = False
                o.ref = self.to_outer(X, o.kind)
                if o.extra.get("JR_frozen") is not None:
                    o.extra["JR"] = self.to_outer(o.extra.pop("JR_frozen"), "ham")
                if not self.dead:
                    self.read(o, "protected-inside/after-exit", where=o.kind)
        after = self.snapshot()
        if after != snap:
            ctx.fail("bookkeeping-restored", "depth=%d" % depth, before=list(snap), after=list(after))
            self.dead = True
        elif qr.Manager().current_basis_operator is not basis_op_before:
            # the operator that defines the enclosing basis is part of the bookkeeping (the secular machinery asks for it)
            ctx.fail("bookkeeping-restored", "basis-operator/depth=%d" % min(depth, 2),
                     now=type(qr.Manager().current_basis_operator).__name__, before=type(basis_op_before).__name__)
            self.dead = True
        # objects, read in the enclosing basis, equal their references again
        k = 0
        for o in list(self.pool):
            if (stm["check"] >> (k % 8)) & 1 or o is op:
                self.read(o, "restored-after-exit", where=o.kind)
            k += 1
        if pending is not None and not self.dead:
            raise pending


def _check_td_redfield(case, ctx):
    """a time-dependent Redfield tensor obtained in operator form, converted to tensor form later, then presented in
    another basis: the same numbers as the tensor obtained in tensor form"""
    import quantarhei as qr
    from .. import gens
    from ..core import guarded
    spec = {"E": [12000, 12000 + case["gap"], 12150], "J": [[0, case["J"], 30], [case["J"], 0, -70], [30, -70, 0]],
            "d": [[1.0, 0.0, 0.0]] * 3, "T": 250,
            "bath": [{"ftype": "OverdampedBrownian", "reorg": 30 + 15 * i, "cortime": 40 + 10 * i, "matsubara": 8}
                     for i in range(3)],
            "time": [0.0, 40, 2.0]}
    ctx.label("td-redfield-tensor", "convert:" + case["where"])
    ctx.mark_nontrivial(True)

    def run():
        ta = qr.TimeAxis(0.0, 40, 2.0)
        Ro, ho = gens.make_aggregate(qr, spec).get_RelaxationTensor(ta, relaxation_theory="standard_Redfield",
                                                                     time_dependent=True, as_operators=True)
        Rt, ht = gens.make_aggregate(qr, spec).get_RelaxationTensor(ta, relaxation_theory="standard_Redfield",
                                                                     time_dependent=True)
        if case["where"] == "outside":
            Ro.convert_2_tensor()
        with qr.eigenbasis_of(ho):
            if case["where"] == "inside-after-read":
                Ro.Km
                Ro.convert_2_tensor()
            a_in = numpy.array(Ro.data)
        with qr.eigenbasis_of(ht):
            b_in = numpy.array(Rt.data)
        return a_in, b_in, numpy.array(Ro.data), numpy.array(Rt.data)
    ok, r = guarded(ctx, "td-redfield", run, case["where"])
    if ok:
        sc = max(1e-300, float(numpy.max(numpy.abs(r[1]))))
        ctx.close("inside-presentation", r[0], r[1], rtol=1e-9, scale=sc, where="td-redfield/converted-" + case["where"])
        ctx.close("restored-after-exit", r[2], r[3], rtol=1e-9, scale=sc, where="td-redfield/converted-" + case["where"])


def check_case(case, ctx):
    if case.get("kind") == "tdredfield":
        return _check_td_redfield(case, ctx)
    import quantarhei as qr
    m = Machine(case, ctx, qr)
    from quantarhei.qm import Operator
    m.alien_ref = numpy.arange(float((case["dim"] + 1) ** 2)).reshape(case["dim"] + 1, case["dim"] + 1)
    m.alien = Operator(data=m.alien_ref.copy())
    kinds = ["op", "sa", "ham", "dm"]
    for kind, data in zip(kinds, case["base"]):
        m.create(kind, data, 1, case["degenerate"] if kind == "sa" else 0)
    ctx.label("complex" if case["cplx"] else "real", "dim=%d" % case["dim"])
    try:
        m.run_block(case["body"])
    except Abort:
        raise HarnessError("Abort escaped the outermost context")
    # at the very end, outside every context, everything equals its reference
    if not m.dead:
        if qr.Manager().get_current_basis() != 0:
            ctx.fail("bookkeeping-restored", "final", basis=qr.Manager().get_current_basis())
        for o in m.pool:
            m.read(o, "restored-after-exit", where=o.kind + "/final")
        try:
            if not numpy.array_equal(numpy.array(m.alien.data), m.alien_ref) or m.alien.get_current_basis() != 0:
                ctx.fail("restored-after-exit", "alien-operator/final")
        except Exception as e:
            ctx.fail("restored-after-exit/read-raises", "alien-operator/final", exc=type(e).__name__, msg=str(e)[:120])
    ctx.mark_nontrivial((m.depth_max >= 2 or m.exceptional_exits >= 1) and m.created_inside >= 1
                        and m.first_reads_inside >= 1)
