"""C11  Linear spectra match the Fourier integral and symmetry relations.

Oracle: the defining Fourier sum of the dipole correlation function,
evaluated as a dense matrix product on the *returned* frequency axis, with
exciton energies/vectors from the oracle's own eigh and g(t) from the closed
form of the bath's exponentials (no splines, no FFT); metamorphic relations
(scaling, rotation, relabelling, sum rule); before/after comparison of inputs.
"""
import math

import numpy
from hypothesis import strategies as st

from .. import oracles as orc
from .. import gens
from ..core import guarded

ID = "C11"
TECHNIQUE = ("Hypothesis-generated molecules/aggregates against the direct Fourier sum on the returned axis (closed-form "
             "line-shape functions) plus metamorphic relations and input purity")
LEVEL = ("(Also: common dipole scales down to 1e-4, Hamiltonians whose weak couplings were split off with remove_cutoff_coupling, calculators bootstrapped before for another system or rotating-wave frequency, and a repeated calculate().) For generated molecules and aggregates of 1-4 sites (high-temperature or general overdamped Brownian baths, "
         "generated dipole geometry, even and odd numbers of time points, optional supplied secular Redfield tensor): "
         "calculate(raw=True) equals 2 Re sum_n a(t_n) exp(i(w_k - W) t_n) dt - a(0) dt at every point w_k of the returned "
         "axis, a(t) = sum_alpha |d_alpha|^2 exp(-g_alpha(t) - i(w_alpha - W)t [+ R_aaaa t | - t/tau]), within the stated error "
         "model; the spectrum scales with the square of a common dipole factor, is invariant under a common rotation "
         "and under relabelling, its frequency-unweighted integral per sum of squared dipoles is independent of the "
         "couplings; Hamiltonian, dipole operator and relaxation tensor are unchanged by the calculation."
         " Later additions: aggregates built with the two-exciton band; fully correlated baths; the effective-lineshape calculator with and without the frequency prefactor. Round five: both routes of the spectrum from dynamics; tiny couplings between nearly degenerate sites; the time axis left alone by the effective-lineshape calculator; small deterministic grid.")
NOTE = ("Tolerance of the Fourier-sum clause is an explicit error model: 1e-3 of the peak + 2*sum_n |a(t_n)| dg(t_n) dt, "
        "where dg(t) is the deviation of a trapezoidal double integral of the sampled C(t) from the closed-form g(t) "
        "(the library integrates the samples with splines, which is required to be at least as accurate); the clause "
        "is asserted where this is <= 1.5 % of the peak (always for high-temperature baths). A displacement by one "
        "grid point changes a resolved line by >= 5 % of the peak. N <= 4 sites, 100..500 time points. Fluorescence/CD/LD calculators are not part of C11.")
RULE = ("case = gens.system_spec(N 1..4) with HT or general OB baths + number of time points (even/odd) + scale factor + "
        "rotation (integer quaternion) + permutation + with/without supplied secular Redfield tensor + molecule|aggregate. "
        "Non-trivial: N >= 2, J != 0, non-parallel dipoles and every line at least 4 grid points wide (FWHM).")
ASSUMPTIONS = [
    "for aggregates the rotating-wave frequency is the block average of the site energies (what build() sets)",
    "uncorrelated site baths: g_alpha = sum_n |c_n alpha|^4 g_n",
]
BUDGET = {"quick": (400, 85), "thorough": (900, 800)}


@st.composite
def _case(draw):
    ft = draw(st.sampled_from(["OverdampedBrownian-HighTemperature", "OverdampedBrownian"]))
    spec = draw(gens.system_spec(nmin=1, nmax=4, ftypes=(ft,), tmin=100, tmax=350, ntmax=500, lam=(20, 120),
                                 tauc=(30, 100), spread=500, jmax=300))
    dt = spec["time"][2]
    nt = draw(st.integers(100, 500))
    nt = max(nt, int(8 * max(b["cortime"] for b in spec["bath"]) / dt))
    spec["time"] = [0.0, nt, dt]
    n = len(spec["E"])
    for i in range(n):                       # no vanishing dipoles
        if all(x == 0 for x in spec["d"][i]):
            spec["d"][i][i % 3] = 1.0
    q = draw(st.tuples(st.integers(-3, 3), st.integers(-3, 3), st.integers(-3, 3), st.integers(-3, 3)))
    if all(x == 0 for x in q):
        q = (1, 0, 0, 0)
    return {"spec": spec, "molecule": n == 1 and draw(st.booleans()),
            "scale": draw(st.sampled_from([0.5, 2.0, 3.0, 1e-3, 1e-4])),
            # weak couplings split off the Hamiltonian before the calculation (remove_cutoff_coupling, value in 1/cm);
            # the calculator object bootstrapped before on another system / with another rotating-wave frequency
            "split": draw(st.sampled_from([None, None, None, 10, 40, 90])) if n >= 2 else None,
            "rebootstrap": draw(st.sampled_from([False, False, True])),
            # non-zero electronic ground-state energies (a common shift of the whole Hamiltonian), and an aggregate that
            # was diagonalised (Aggregate.diagonalize) before the calculator got it
            "ground": [draw(st.integers(0, 400)) for _ in range(n)] if draw(st.sampled_from([False, False, True])) else None,
            "diagonalized_before": draw(st.sampled_from([False, False, True])),
            # the aggregate is built with its two-exciton band (no change of the linear spectrum); the energy-gap
            # fluctuations of all sites are fully correlated (one bath function for every pair of sites, given as a
            # correlation function matrix); the effective-lineshape calculator with and without frequency prefactor
            "mult": draw(st.sampled_from([1, 1, 2])),
            "correlated": draw(st.sampled_from([False, False, True])) if n >= 2 else False,
            "mock": draw(st.sampled_from([False, False, True])) if n >= 2 else False,
            # the spectrum obtained from propagated dynamics, by both routes of the calculator (short axes only)
            "from_dynamics": draw(st.sampled_from([False, False, False, True])) if n >= 2 else False,
            # all site energies equal and all couplings a fraction of a wavenumber: still delocalised eigenstates
            "tiny_couplings": draw(st.sampled_from([False, False, False, True])) if n >= 2 else False,
            "quat": list(q), "perm": list(draw(st.permutations(list(range(n))))),
            "tensor": draw(st.booleans()) if n >= 2 else False}


def strategy(tier):
    return _case()


def grid(tier):
    """A few fixed aggregates on which the rarer options are switched on at every seed."""
    spec = {"E": [12000, 12210, 12090], "J": [[0, 130, -40], [130, 0, 70], [-40, 70, 0]],
            "d": [[1.0, 0.0, 0.0], [0.0, 1.3, 0.0], [0.5, 0.2, 0.9]], "T": 280,
            "bath": [{"ftype": "OverdampedBrownian", "reorg": 40 + 15 * i, "cortime": 50 + 10 * i, "matsubara": 12}
                     for i in range(3)],
            "time": [0.0, 240, 2.0]}
    base = {"spec": spec, "molecule": False, "scale": 2.0, "split": None, "rebootstrap": False, "ground": None,
            "diagonalized_before": False, "mult": 1, "correlated": False, "mock": False, "from_dynamics": False,
            "tiny_couplings": False, "quat": [1, 2, 0, 1], "perm": [2, 0, 1], "tensor": False}
    for opt in ("from_dynamics", "mock", "tiny_couplings", "correlated"):
        yield dict(base, **{opt: True})
    yield dict(base, mult=2)
    yield dict(base, split=50, rebootstrap=True)


def rotation(q):
    a, b, c, d = [float(x) for x in q]
    nrm = a * a + b * b + c * c + d * d
    return numpy.array([[a * a + b * b - c * c - d * d, 2 * (b * c - a * d), 2 * (b * d + a * c)],
                        [2 * (b * c + a * d), a * a - b * b + c * c - d * d, 2 * (c * d - a * b)],
                        [2 * (b * d - a * c), 2 * (c * d + a * b), a * a - b * b - c * c + d * d]]) / nrm


def split_spec(spec, split):
    """the system whose weak couplings (|J| < split) are removed (Hamiltonian.remove_cutoff_coupling)"""
    if not split:
        return spec
    n = len(spec["E"])
    J = [[0 if i == j or abs(spec["J"][i][j]) < split else spec["J"][i][j] for j in range(n)] for i in range(n)]
    return dict(spec, J=J)


def run_calc(qr, spec, molecule=False, tensor=False, fingerprint=False, split=None, rebootstrap=False, repeat=False,
             diagonalized=False, mult=1):
    t0, nt, dt = spec["time"]
    ta = qr.TimeAxis(t0, int(nt), dt)
    agg = gens.make_aggregate(qr, spec, build=not molecule, mult=mult)
    if diagonalized and not molecule:
        agg.diagonalize()
    extra = {}
    if molecule:
        mol = agg.monomers[0]
        calc = qr.AbsSpectrumCalculator(ta, system=mol)
        if rebootstrap:
            with qr.energy_units("1/cm"):
                calc.bootstrap(rwa=float(spec["E"][0]) + 400.0)
        with qr.energy_units("1/cm"):
            calc.bootstrap(rwa=float(spec["E"][0]) + 100.0)
        extra["rwa"] = (spec["E"][0] + 100.0) * orc.CM2INT
        extra["tau"] = mol.get_electronic_natural_lifetime(1)
    else:
        kw = {}
        if tensor:
            RT, ham = agg.get_RelaxationTensor(ta, relaxation_theory="standard_Redfield", secular_relaxation=True)
            kw = dict(relaxation_tensor=RT, effective_hamiltonian=ham)
            with qr.eigenbasis_of(ham):
                extra["Rdiag"] = numpy.array([RT.data[a, a, a, a] for a in range(ham.dim)])
        elif fingerprint and not split and not diagonalized:
            # the effective Hamiltonian is an object of the caller's own (equal to the system's): the system's
            # Hamiltonian must come back untouched and the spectrum is that of the plain calculation
            from quantarhei.qm.hilbertspace.hamiltonian import Hamiltonian
            with qr.energy_units("int"):
                kw = dict(effective_hamiltonian=Hamiltonian(data=numpy.array(agg.get_Hamiltonian()._data, copy=True)))
        if split:
            with qr.energy_units("1/cm"):
                agg.get_Hamiltonian().remove_cutoff_coupling(float(split))
        if rebootstrap:
            # the calculator was set up for another realisation of the system (all site energies 300 1/cm higher) first
            other = gens.make_aggregate(qr, dict(spec, E=[e + 300 for e in spec["E"]]), mult=mult)
            calc = qr.AbsSpectrumCalculator(ta, system=other, **kw)
            calc.bootstrap()
            calc.system = agg
        else:
            calc = qr.AbsSpectrumCalculator(ta, system=agg, **kw)
        calc.bootstrap()
        if fingerprint:
            H = agg.get_Hamiltonian()
            D = agg.get_TransitionDipoleMoment()
            extra["before"] = {"H": numpy.array(H._data, copy=True), "D": numpy.array(D._data, copy=True),
                               "JR": numpy.array(H.JR, copy=True) if getattr(H, "_has_remainder_coupling", False) else numpy.zeros(1),
                               "flags": [bool(getattr(H, "_has_remainder_coupling", False)), bool(H.is_basis_protected),
                                         int(H.get_current_basis()), int(D.get_current_basis())]}
            if tensor:
                extra["before"]["R"] = numpy.array(kw["relaxation_tensor"]._data, copy=True)
    sp = calc.calculate(raw=True)
    if repeat:
        extra["second"] = numpy.array(calc.calculate(raw=True).data)
    if fingerprint and not molecule:
        H = agg.get_Hamiltonian()
        D = agg.get_TransitionDipoleMoment()
        extra["after"] = {"H": numpy.array(H._data, copy=True), "D": numpy.array(D._data, copy=True),
                          "JR": numpy.array(H.JR, copy=True) if getattr(H, "_has_remainder_coupling", False) else numpy.zeros(1),
                          "flags": [bool(getattr(H, "_has_remainder_coupling", False)), bool(H.is_basis_protected),
                                    int(H.get_current_basis()), int(D.get_current_basis())]}
        if tensor:
            extra["after"]["R"] = numpy.array(kw["relaxation_tensor"]._data, copy=True)
    with qr.energy_units("int"):
        return numpy.array(sp.axis.data, dtype=float), numpy.array(sp.data), extra


def check_case(case, ctx):
    import quantarhei as qr
    spec = case["spec"]
    n = len(spec["E"])
    T = spec["T"]
    t0, nt, dt = spec["time"]
    molecule, tensor = case["molecule"], case["tensor"]
    if case.get("tiny_couplings") and not molecule and n >= 2:
        # (generic values: no exact degeneracy, which would leave the exciton basis - and with it the formula of the
        # property - undetermined)
        spec = dict(spec, E=[spec["E"][0] + 0.13 * i for i in range(n)],
                    J=[[0 if i == j else (0.21 + 0.05 * min(i, j) + 0.03 * max(i, j)) * (-1 if (i + j) % 3 == 0 else 1)
                        for j in range(n)] for i in range(n)])
        ctx.label("tiny-couplings-degenerate-sites")
    ht = spec["bath"][0]["ftype"].endswith("HighTemperature")
    ctx.label("molecule" if molecule else "aggregate", "N=%d" % n, "odd" if nt % 2 else "even", "tensor" if tensor else "no-tensor",
              "HT" if ht else "OB")
    tag = ("molecule" if molecule else "aggregate") + ("/tensor" if tensor else "")

    split = None if (molecule or tensor) else case.get("split")
    reboot = bool(case.get("rebootstrap"))
    if split:
        ctx.label("weak-couplings-split-off")
        tag = tag + "/split"
    if reboot:
        ctx.label("calculator-bootstrapped-before")
    if case.get("ground") and not molecule:
        spec = dict(spec, ground=case["ground"])
        ctx.label("ground-energies!=0")
    diag_before = bool(case.get("diagonalized_before")) and not molecule
    mult = 2 if (case.get("mult") == 2 and not molecule and not tensor and n >= 2) else 1
    if mult == 2:
        ctx.label("built-with-two-exciton-band")
        tag = tag + "/mult2"
    correlated = bool(case.get("correlated")) and not molecule and not tensor and n >= 2
    if correlated:
        spec = dict(spec, correlated=True, bath=[spec["bath"][0]] * n)
        ctx.label("correlated-baths")
        tag = tag + "/correlated"
    if diag_before:
        ctx.label("aggregate-diagonalized-before")
    ok, r = guarded(ctx, "calculate", lambda: run_calc(qr, spec, molecule, tensor, fingerprint=True, split=split,
                                                       rebootstrap=reboot, repeat=True, diagonalized=diag_before,
                                                       mult=mult), tag)
    if not ok:
        return
    w, S, extra = r
    if len(w) != len(S) or not numpy.all(numpy.isfinite(S)):
        ctx.fail("spectrum/shape-or-finite", tag, nw=len(w), ns=len(S))
        return

    # ---- direct Fourier sum on the returned axis ----------------------------------------------------------
    t = numpy.arange(int(nt)) * dt
    H = gens.site_hamiltonian_int(split_spec(spec, split))
    ev, C = numpy.linalg.eigh(H[1:, 1:])
    gs, dgs = [], []
    for b in spec["bath"]:
        lam = b["reorg"] * orc.CM2INT
        ex = orc.ht_exponentials(lam, b["cortime"], T) if ht else orc.ob_exponentials(lam, b["cortime"], T, b["matsubara"])
        gs.append(orc.lineshape_g(t, ex))
        # error model for the library's g(t), which is a double numerical integral of the *sampled* C(t): the
        # trapezoidal double integral of the same samples deviates from the closed form by dgs(t); a spline
        # integration is required to be at least that accurate (observed: 2.5-3 times more accurate)
        Cs = sum(c * numpy.exp(-nu * t) for c, nu in ex)
        h1 = numpy.concatenate([[0.0], numpy.cumsum((Cs[1:] + Cs[:-1]) / 2.0 * dt)])
        g1 = numpy.concatenate([[0.0], numpy.cumsum((h1[1:] + h1[:-1]) / 2.0 * dt)])
        dgs.append(numpy.abs(g1 - gs[-1]))
    d = numpy.array(spec["d"], dtype=float)
    aabs_dg = numpy.zeros(len(t))
    if molecule:
        Om = extra["rwa"]
        a = float(d[0] @ d[0]) * numpy.exp(-gs[0] - 1j * (H[1, 1] - Om) * t - t / extra["tau"])
        aabs_dg = numpy.abs(a) * dgs[0]
    else:
        Om = float(numpy.mean(numpy.diag(H)[1:]))
        a = numpy.zeros(len(t), dtype=complex)
        for al in range(n):
            dal = C[:, al] @ d
            g = sum((C[s, al] ** 4) * gs[s] for s in range(n))
            dg_al = sum((C[s, al] ** 4) * dgs[s] for s in range(n))
            if correlated:
                # sum_kl |c_k|^2 |c_l|^2 C(t) = C(t): no exchange narrowing
                g, dg_al = gs[0], dgs[0]
            expo = -g - 1j * (ev[al] - Om) * t
            if tensor:
                expo = expo + extra["Rdiag"][al + 1] * t
            a += float(dal @ dal) * numpy.exp(expo)
            aabs_dg += float(dal @ dal) * numpy.abs(numpy.exp(expo)) * dg_al
    ref = 2.0 * numpy.real(numpy.exp(1j * numpy.outer(w - Om, t)) @ a) * dt - numpy.real(a[0]) * dt
    peak = float(numpy.max(numpy.abs(ref)))
    allowed = 1e-3 * peak + 2.0 * float(numpy.sum(aabs_dg)) * dt
    if allowed <= 1.5e-2 * peak:
        ctx.bound("fourier-integral-on-returned-axis", float(numpy.max(numpy.abs(numpy.real(S) - ref))), allowed, where=tag,
                  nt=int(nt), dt=dt)
    else:
        ctx.label("g(t)-integration-unresolved")
    # every line sits at its transition energy: position of the maximum within one grid point
    # (two lines of nearly equal height: which of them is the global maximum may differ between the library and the
    # reference within the error model, so the library's maximum must lie within one grid point of a point where the
    # reference is within twice the allowed deviation of its own maximum)
    dw = w[1] - w[0]
    ks = int(numpy.argmax(numpy.real(S)))
    top = numpy.nonzero(ref >= float(numpy.max(ref)) - 2.0 * allowed)[0]
    dist = float(numpy.min(numpy.abs(w[top] - w[ks])))
    ctx.bound("line-position", dist, 1.01 * abs(dw), where=tag)

    # non-triviality: coupled, non-parallel dipoles, resolved lines
    fwhm = min(2.355 * math.sqrt(2 * b["reorg"] * orc.CM2INT * orc.KB_INT * T) for b in spec["bath"])
    coupled = any(spec["J"][i][j] != 0 for i in range(n) for j in range(i + 1, n))
    nonpar = n >= 2 and any(numpy.linalg.norm(numpy.cross(d[0], d[i])) > 1e-9 for i in range(1, n))
    ctx.mark_nontrivial(n >= 2 and coupled and nonpar and fwhm >= 4 * abs(dw))

    if case.get("mock") and not molecule:
        # the calculator with effective (Gaussian) line shapes: the spectrum asked for without the frequency prefactor
        # (raw=True) times the frequency is the spectrum with it
        def mock():
            agg = gens.make_aggregate(qr, {k: v for k, v in spec.items() if k != "correlated"}, build=False)
            with qr.energy_units("1/cm"):
                for i, m in enumerate(agg.monomers):
                    m.set_transition_width((0, 1), 40.0 + 15.0 * i)
            agg.build()
            tm = qr.TimeAxis(0.0, 1000, 2.0)
            atype0 = tm.atype
            calc = qr.MockAbsSpectrumCalculator(tm, system=agg)
            calc.bootstrap(rwa=agg.get_RWA_suggestion(), shape="Gaussian")
            raw = calc.calculate(raw=True)
            full = calc.calculate()
            with qr.energy_units("int"):
                return numpy.array(raw.axis.data), numpy.array(raw.data), numpy.array(full.data), atype0, tm.atype
        ok, mk = guarded(ctx, "mock-calculator", mock, tag)
        if ok:
            wm, rawd, fulld, at0, at1 = mk
            if at0 != at1:
                # the time axis handed to the calculator is an input: other calculators may share it
                ctx.fail("mock/time-axis-unchanged", tag, before=at0, after=at1)
            ctx.label("mock-calculator")
            if float(numpy.max(numpy.abs(rawd))) <= 0.0:
                ctx.label("mock-calculator:empty-spectrum")
            else:
                ctx.close("mock/raw-times-frequency-is-spectrum", numpy.real(rawd) * wm, numpy.real(fulld), rtol=1e-9,
                          scale=max(1e-300, float(numpy.max(numpy.abs(fulld)))), where=tag)

    if case.get("from_dynamics") and not molecule and int(nt) <= 260 and n <= 3 and not correlated and not spec.get("ground"):
        # two routes of the calculator from propagated dynamics: one propagation per Cartesian component, summed, and
        # the alternative route; the same spectrum
        def dyn():
            agg = gens.make_aggregate(qr, spec)
            ta2 = qr.TimeAxis(t0, int(nt), dt)
            calc = qr.AbsSpectrumCalculator(ta2, system=agg)
            prop = agg.get_ReducedDensityMatrixPropagator(ta2, relaxation_theory="stR", time_dependent=True)
            calc.bootstrap(prop=prop)
            a = calc.calculate(from_dynamics=True, raw=True)
            b = calc.calculate(from_dynamics=True, alt=True, raw=True)
            return numpy.array(a.data), numpy.array(b.data)
        ok, ab = guarded(ctx, "from-dynamics", dyn, tag)
        if ok:
            ctx.label("from-dynamics")
            ctx.close("from-dynamics/routes-agree", numpy.real(ab[0]), numpy.real(ab[1]), rtol=1e-8,
                      scale=max(1e-300, float(numpy.max(numpy.abs(ab[1])))), where=tag)

    if "second" in extra:
        ctx.close("repeated-calculation-same-spectrum", extra["second"], S, rtol=1e-9,
                  scale=max(1e-300, float(numpy.max(numpy.abs(S)))), where=tag)
    if molecule:
        return

    # ---- purity ------------------------------------------------------------------------------------------------
    for name in extra["before"]:
        b, af = extra["before"][name], extra["after"][name]
        if name == "flags":
            if b != af:
                ctx.fail("inputs-unchanged", tag, changed="flags", before=b, after=af)
            continue
        ctx.close("inputs-unchanged", af, b, rtol=1e-10, scale=max(1e-300, float(numpy.max(numpy.abs(b)))), where=tag,
                  changed=name)

    # ---- metamorphic relations -------------------------------------------------------------------------------------
    sc = max(1e-300, float(numpy.max(numpy.abs(S))))
    s = case["scale"]
    spec_s = dict(spec, d=[[s * x for x in v] for v in spec["d"]])
    ok, r2 = guarded(ctx, "calculate", lambda: run_calc(qr, spec_s, False, tensor, split=split), tag + "/scaled")
    if ok:
        ctx.close("dipole-scaling", r2[1], s * s * S, rtol=1e-9, scale=s * s * sc, where=tag)
    Rm = rotation(case["quat"])
    spec_r = dict(spec, d=[list(Rm @ numpy.array(v)) for v in spec["d"]])
    ok, r3 = guarded(ctx, "calculate", lambda: run_calc(qr, spec_r, False, tensor, split=split), tag + "/rotated")
    if ok:
        ctx.close("rotation-invariance", r3[1], S, rtol=1e-9, scale=sc, where=tag)
    p = case["perm"]
    spec_p = dict(spec, E=[spec["E"][i] for i in p], d=[spec["d"][i] for i in p], bath=[spec["bath"][i] for i in p],
                  J=[[spec["J"][p[i]][p[j]] for j in range(n)] for i in range(n)])
    ok, r4 = guarded(ctx, "calculate", lambda: run_calc(qr, spec_p, False, tensor, split=split), tag + "/relabelled")
    if ok:
        ctx.close("relabelling-invariance", r4[1], S, rtol=1e-8, scale=sc, where=tag)
    # sum rule: integral of the raw spectrum per sum of squared dipoles does not depend on the couplings
    if coupled and not tensor:
        spec_0 = dict(spec, J=[[0] * n for _ in range(n)])
        ok, r5 = guarded(ctx, "calculate", lambda: run_calc(qr, spec_0, False, False), tag + "/uncoupled")
        if ok:
            I1 = float(numpy.sum(numpy.real(S)) * dw)
            I0 = float(numpy.sum(numpy.real(r5[1])) * dw)
            # tails outside the window: lines are Gaussian-like with width << window; 1 % covers the generated range
            ctx.bound("sum-rule", abs(I1 / I0 - 1.0), 0.01, where=tag)
