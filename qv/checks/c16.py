"""C16  Hierarchical equations: complete index set, consistent links, valid states.

Oracles: itertools enumeration of multi-indices; exact unitary dynamics
(scipy.linalg.expm); closed-form line-shape function of the
high-temperature Brownian oscillator for uncoupled sites.
"""
import math
import itertools

import numpy
import scipy.linalg
from hypothesis import strategies as st

from .. import oracles as orc
from .. import gens
from ..core import guarded

ID = "C16"
EXHAUSTIVE = True
TECHNIQUE = ("complete enumeration of (baths, depth) for the index tables + Hypothesis-generated systems for the "
             "dynamics, against itertools multi-index sets, exact unitary dynamics and the analytic pure-dephasing "
             "solution")
LEVEL = ("(Dynamics also with non-zero ground-state energies, and hierarchies obtained through the aggregate interface at several depths in a row.) (a) every (number of baths 1..5, depth 0..6) with at most 130 (quick) / 500 (thorough) hierarchy members is "
         "built through the real KTHierarchy constructor and its tables are compared with the set of all multi-indices "
         "(set equality, no repeats, level by level, level offsets/lengths, mutual inverse and boundary behaviour of "
         "the raising/lowering links, decay factors). (b) generated coupled systems: trace and Hermiticity of every "
         "stored state. (c) zero reorganisation energy: equals exp(-i(H-H_rwa)t) rho exp(+i...) within 3x the exact "
         "truncation error of the order-4 expansion. (d) uncoupled sites: error against exp(-i(w-W)t - g(t)) at depth "
         "6 below 1e-4 and not increasing over depths 1,2,4,6."
         " Later additions: propagation and propagator construction in units contexts; non-integer correlation times; the propagator route of the aggregate; bath parameters (decay rates, reorganisation energies) of every hierarchy. Round five: the reporting option of propagate; molecules sharing one correlation-function object.")
NOTE = ("HEOM in quantarhei uses the high-temperature limit of the overdamped Brownian oscillator (it says so); g(t) "
        "of the oracle is the closed form for that limit. Convergence clause restricted to sqrt(2 lam kT)/gamma <= 1.0 "
        "and gamma*dt*depth <= 0.35. dim <= 4, depth <= 6, <= 160 time steps.")
RULE = ("grid: all (nbath, depth) with C(nbath+depth, depth) <= cap. generated: kind b/c/d systems of 1..3 sites with "
        "per-site overdamped Brownian baths, T 77..350 K, rho0 = A A+/tr from Gaussian-integer A. Non-trivial: grid: "
        "nbath >= 2 and depth >= 2; dynamics: rho0 has a coherence >= 0.05.")
ASSUMPTIONS = [
    "tolerance of clause (d) is calibrated: worst observed error on the unchanged tree is recorded in residuals",
    "time step 1 fs or 0.5 fs; bath correlation times >= 20 fs",
]
BUDGET = {"quick": (200, 80), "thorough": (300, 900)}


def grid(tier):
    cap = 130 if tier == "quick" else 500
    cells = [(math.comb(nb + depth, depth), nb, depth) for nb in range(1, 6)
             for depth in range(0, 14)]          # (depths with two-digit indices included)
    for size, nb, depth in sorted(cells):        # small hierarchies first
        if size <= cap:
            yield {"kind": "index", "nbath": nb, "depth": depth}


@st.composite
def _dyn(draw, big):
    kind = draw(st.sampled_from(["b", "c", "d", "d"]))
    if kind == "d":
        spec = draw(gens.system_spec(nmin=1, nmax=2, coupled=False, tmin=150, tmax=350, lam=(5, 60),
                                     tauc=(20, 60), ntmax=200, same_bath=False, spread=300))
    else:
        spec = draw(gens.system_spec(nmin=2, nmax=3, coupled=True, tmin=77, tmax=350, lam=(5, 100),
                                     tauc=(20, 100), ntmax=200, spread=300, jmax=200))
    n = len(spec["E"])
    A = draw(gens.density_matrix_spec(n + 1))
    nt = draw(st.integers(40, 100 if not big else 160))
    # individual baths may have exactly zero reorganisation energy (an uncoupled site next to coupled ones)
    zero = draw(st.sampled_from([None, None, 0, 0, 1]))
    if zero is not None and zero < n and kind != "c":
        spec["bath"][zero] = dict(spec["bath"][zero], reorg=0)
    # non-zero ground-state energies (a constant shift of the Hamiltonian; the rotating frame of ham.rwa_energies moves
    # with it, so the dynamics in that frame are the same)
    if draw(st.sampled_from([False, False, True])):
        spec["ground"] = [draw(st.integers(0, 500)) for _ in range(n)]
    return {"kind": kind, "spec": spec, "A": A, "nt": nt, "dt": draw(st.sampled_from([1.0, 0.5])),
            "depth": draw(st.integers(1, 3)),
            # how the hierarchy is obtained: constructor, or the aggregate's own interface after it has already handed
            # out a hierarchy of another depth
            "route": draw(st.sampled_from(["ctor", "ctor", "aggregate", "manual-sbi-in-units"])),
            # (uncoupled sites) the sites are coupled when the propagator is created and used once; the coupling is
            # then removed from the Hamiltonian object and the same propagator is used again
            "decouple_after": draw(st.sampled_from([0, 0, 0, 90, -140])),
            # the caller propagates while other energy units are current
            "prop_units": draw(st.sampled_from([None, None, None, "1/cm", "eV", "THz"])),
            # ... or creates the propagator object while other energy units are current
            "ctor_units": draw(st.sampled_from([None, None, None, "1/cm", "eV"])),
            # correlation times that are not a whole number of femtoseconds
            "tau_frac": draw(st.sampled_from([0, 0, 0.5, 0.25, 0.8])),
            # the populations of the hierarchy members are asked for along with the propagation (an option that must not
            # change the result)
            "report": draw(st.sampled_from([False, False, True]))}


def strategy(tier):
    return _dyn(tier == "thorough")


def check_case(case, ctx):
    if case["kind"] == "index":
        return _index(case, ctx)
    return _dynamics(case, ctx)


def _tiny_system(qr, nbath):
    spec = {"E": [12000 + 10 * i for i in range(nbath)], "J": [[0] * nbath for _ in range(nbath)],
            "T": 300, "bath": [{"ftype": "OverdampedBrownian", "reorg": 20 + i, "cortime": 50 + 10 * i, "matsubara": 5}
                               for i in range(nbath)], "time": [0.0, 20, 1.0]}
    agg = gens.make_aggregate(qr, spec)
    return spec, agg


def _index(case, ctx):
    import quantarhei as qr
    from quantarhei.qm.liouvillespace.heom import KTHierarchy
    nb, depth = case["nbath"], case["depth"]
    ctx.label("index")
    ctx.mark_nontrivial(nb >= 2 and depth >= 2)
    where = "nbath=%d" % nb

    def build():
        spec, agg = _tiny_system(qr, nb)
        return spec, KTHierarchy(agg.get_Hamiltonian(), agg.get_SystemBathInteraction(), depth)
    ok, r = guarded(ctx, "index/construct", build, where)
    if not ok:
        return
    spec, hy = r
    hinds = [tuple(int(x) for x in row) for row in numpy.asarray(hy.hinds)]
    want = [t for t in itertools.product(range(depth + 1), repeat=nb) if sum(t) <= depth]
    if ctx.counting:
        ctx.exhaustive_cells += len(want)
    if int(hy.hsize) != math.comb(nb + depth, depth) or len(hinds) != int(hy.hsize):
        ctx.fail("index/size", where, hsize=int(hy.hsize), rows=len(hinds), want=math.comb(nb + depth, depth), depth=depth)
        return
    if len(set(hinds)) != len(hinds):
        ctx.fail("index/repeats", where, depth=depth)
        return
    if set(hinds) != set(want):
        ctx.fail("index/set", where, depth=depth, missing=sorted(set(want) - set(hinds))[:3],
                 extra=sorted(set(hinds) - set(want))[:3])
        return
    orders = [sum(t) for t in hinds]
    if orders != sorted(orders):
        ctx.fail("index/level-order", where, depth=depth)
        return
    # level offsets and lengths
    for lv in range(depth + 1):
        cnt = sum(1 for o in orders if o == lv)
        first = orders.index(lv)
        if int(hy.levlengths[lv]) != cnt or int(hy.levels[lv]) != first:
            ctx.fail("index/levels", where, depth=depth, level=lv, got=[int(hy.levels[lv]), int(hy.levlengths[lv])],
                     want=[first, cnt])
            return
    pos = {t: i for i, t in enumerate(hinds)}
    nm1 = numpy.asarray(hy.nm1)
    np1 = numpy.asarray(hy.np1)
    for i, t in enumerate(hinds):
        for k in range(nb):
            lo = list(t); lo[k] -= 1
            hi = list(t); hi[k] += 1
            want_m = pos[tuple(lo)] if t[k] > 0 else -1
            want_p = pos[tuple(hi)] if sum(t) < depth else -1
            if int(nm1[i, k]) != want_m:
                ctx.fail("index/lowering-link", where, depth=depth, n=list(t), k=k, got=int(nm1[i, k]), want=want_m)
                return
            if int(np1[i, k]) != want_p:
                ctx.fail("index/raising-link", where, depth=depth, n=list(t), k=k, got=int(np1[i, k]), want=want_p)
                return
            if want_p >= 0 and int(nm1[want_p, k]) != i:
                ctx.fail("index/links-not-inverse", where, depth=depth, n=list(t), k=k)
                return
    gam = numpy.array([1.0 / b["cortime"] for b in spec["bath"]])
    ctx.close("index/decay-factors", numpy.asarray(hy.Gamma), numpy.array([numpy.dot(t, gam) for t in hinds]),
              rtol=1e-12, scale=max(1e-9, depth * float(numpy.max(gam))), where=where)


REPORT = {"ok": True}       # whether the last propagation that was asked to report hierarchy populations did so


def _propagate(qr, agg, depth, ta, rho0, route="ctor", spec=None, decouple=0, units=None, ctor_units=None, report=False):
    from quantarhei.qm.liouvillespace.heom import KTHierarchy, KTHierarchyPropagator
    ham = agg.get_Hamiltonian()
    sbi = agg.get_SystemBathInteraction()
    if route == "aggregate":
        hy = agg.get_KTHierarchy(depth)
    elif route == "manual-sbi-in-units" and spec is not None:
        # a hand-made system-bath interaction object, put together while other energy units are current
        from quantarhei.qm import Operator, SystemBathInteraction
        from quantarhei.qm.corfunctions import CorrelationFunctionMatrix
        n = len(spec["E"])
        t0, nt, dt = spec["time"]
        time = qr.TimeAxis(t0, int(nt), dt)
        with qr.energy_units("1/cm"):
            cfs = [qr.CorrelationFunction(time, gens.bath_params(b, spec["T"])) for b in spec["bath"]]
            cm = CorrelationFunctionMatrix(time, n)
            for i in range(n):
                cm.set_correlation_function(cfs[i], [(i, i)])
            ops = []
            for i in range(n):
                K = numpy.zeros((n + 1, n + 1)); K[i + 1, i + 1] = 1.0
                ops.append(Operator(data=K))
            sbi2 = SystemBathInteraction(ops, cm)
        hy = KTHierarchy(ham, sbi2, depth)
    else:
        hy = KTHierarchy(ham, sbi, depth)
    if ctor_units:
        with qr.energy_units(ctor_units):
            prop = KTHierarchyPropagator(ta, hy)
    else:
        prop = KTHierarchyPropagator(ta, hy)
    if decouple:
        # use the propagator once with the coupled sites, then remove the coupling from the Hamiltonian object
        prop.propagate(qr.ReducedDensityMatrix(data=rho0.copy()))
        with qr.energy_units("1/cm"):
            ham.remove_cutoff_coupling(abs(float(decouple)) + 1.0)
    kw = {"report_hierarchy": True} if report else {}
    if units:
        with qr.energy_units(units):
            rt = prop.propagate(qr.ReducedDensityMatrix(data=rho0.copy()), **kw)
    else:
        rt = prop.propagate(qr.ReducedDensityMatrix(data=rho0.copy()), **kw)
    if report:
        hp = getattr(hy, "hpop", None)
        REPORT["ok"] = hp is not None and numpy.shape(hp) == (ta.length, hy.hsize)
    return numpy.array(rt.data)


def _dynamics(case, ctx):
    import quantarhei as qr
    spec = dict(case["spec"])
    kind = case["kind"]
    n = len(spec["E"])
    if case.get("tau_frac"):
        spec["bath"] = [dict(b, cortime=b["cortime"] + case["tau_frac"]) for b in spec["bath"]]
        ctx.label("non-integer-correlation-times")
    if kind == "c":
        spec["bath"] = [dict(b, reorg=0) for b in spec["bath"]]
    rho0 = gens.density_matrix(case["A"])
    coh = float(numpy.max(numpy.abs(rho0 - numpy.diag(numpy.diag(rho0)))))
    ctx.label("dyn:" + kind, "N=%d" % n)
    ctx.mark_nontrivial(coh >= 0.05)
    nt, dt = case["nt"], case["dt"]
    ok, agg = guarded(ctx, "dynamics/build", lambda: gens.make_aggregate(qr, spec))
    if not ok:
        return
    ta = qr.TimeAxis(0.0, nt, dt)
    t = numpy.array(ta.data)
    H = gens.site_hamiltonian_int(spec)
    # rotating frame: the ground state at 0, the one-exciton block at its mean site energy
    Om = numpy.zeros(n + 1)
    Om[1:] = numpy.mean(numpy.diag(H)[1:])
    Hr = H - numpy.diag(Om)

    rep_ = bool(case.get("report"))

    def valid(data, tag):
        if rep_ and not REPORT["ok"]:
            ctx.fail("dynamics/hierarchy-populations-reported", tag)
        REPORT["ok"] = True
        tr = numpy.trace(data, axis1=1, axis2=2)
        ctx.close("dynamics/trace", tr, numpy.ones(len(tr)), rtol=1e-10, atol=1e-12, where=tag)
        ctx.close("dynamics/hermitian", data, numpy.conj(numpy.transpose(data, (0, 2, 1))), rtol=1e-10, scale=1.0,
                  where=tag)

    route = case.get("route", "ctor")
    pu = case.get("prop_units")
    if pu:
        ctx.label("propagated-in-units:" + pu)
    rep_ = bool(case.get("report"))
    if rep_:
        ctx.label("hierarchy-populations-reported")
    cunits = case.get("ctor_units")
    if cunits:
        ctx.label("propagator-created-in-units:" + cunits)
    ctx.label("route:" + route, "ground!=0" if spec.get("ground") and any(spec["ground"]) else "ground=0")
    if True:
        # the aggregate's own interface, asked for several depths in a row (a convergence study on one object): every
        # hierarchy - and the hierarchy inside every propagator handed out - must have the requested depth and the
        # complete index set of that depth (done on a separate aggregate object unless the route is "aggregate")
        a_if = agg if route == "aggregate" else gens.make_aggregate(qr, spec)

        def sizes():
            out = [("hierarchy", d, int(h.depth), int(h.hsize)) for d, h in ((d, a_if.get_KTHierarchy(d)) for d in (1, 3, 2))]
            out += [("propagator", d, int(p.hy.depth), int(p.hy.hsize))
                    for d, p in ((d, a_if.get_KTHierarchyPropagator(depth=d)) for d in (1, 3, 2))]
            return out
        def bath_parameters():
            h = a_if.get_KTHierarchy(2)
            return numpy.array(h.gamma, dtype=float), numpy.array(h.lam, dtype=float)

        def shared_function_object():
            # all molecules given one and the same correlation function object (as the library's own examples do)
            from quantarhei.qm.liouvillespace.heom import KTHierarchy
            b0 = spec["bath"][0]
            t0_, nt_, dt_ = spec["time"]
            time = qr.TimeAxis(t0_, int(nt_), dt_)
            with qr.energy_units("1/cm"):
                cf = qr.CorrelationFunction(time, gens.bath_params(b0, spec["T"]))
                ms = []
                for i in range(n):
                    m = qr.Molecule([0.0, float(spec["E"][i])])
                    m.set_transition_environment((0, 1), cf)
                    ms.append(m)
                a2 = qr.Aggregate(molecules=ms)
            a2.build()
            h = a2.get_KTHierarchy(2)
            return int(h.nbath), int(h.hsize), numpy.array(h.hinds).shape
        ok, sh = guarded(ctx, "index/shared-function-object", shared_function_object)
        if ok and (sh[0] != n or sh[1] != math.comb(n + 2, 2) or tuple(sh[2]) != (math.comb(n + 2, 2), n)):
            ctx.fail("index/shared-function-object", "size", nbath=sh[0], size=sh[1], shape=list(sh[2]), sites=n)
            return

        def bath_parameters_manual():
            # the same from a hand-made system-bath interaction that was put together inside a units context
            from quantarhei.qm.liouvillespace.heom import KTHierarchy
            from quantarhei.qm import Operator, SystemBathInteraction
            from quantarhei.qm.corfunctions import CorrelationFunctionMatrix
            t0_, nt_, dt_ = spec["time"]
            time = qr.TimeAxis(t0_, int(nt_), dt_)
            with qr.energy_units("1/cm"):
                cfs = [qr.CorrelationFunction(time, gens.bath_params(b, spec["T"])) for b in spec["bath"]]
                cm = CorrelationFunctionMatrix(time, n)
                for i in range(n):
                    cm.set_correlation_function(cfs[i], [(i, i)])
                ops = []
                for i in range(n):
                    K = numpy.zeros((n + 1, n + 1)); K[i + 1, i + 1] = 1.0
                    ops.append(Operator(data=K))
                sbi2 = SystemBathInteraction(ops, cm)
            h = KTHierarchy(a_if.get_Hamiltonian(), sbi2, 2)
            return numpy.array(h.gamma, dtype=float), numpy.array(h.lam, dtype=float)
        for fn, wh in ((bath_parameters_manual, "manual-sbi-in-units/"), (bath_parameters, "")):
            ok, gl = guarded(ctx, "hierarchy/bath-parameters", fn, wh)
            if ok:
                ctx.close("hierarchy/bath-parameters", gl[0], [1.0 / float(b["cortime"]) for b in spec["bath"]], rtol=1e-12,
                          where=wh + "decay-rates")
                ctx.close("hierarchy/bath-parameters", gl[1], [b["reorg"] * orc.CM2INT for b in spec["bath"]], rtol=1e-9,
                          atol=1e-300, where=wh + "reorganisation-energies")
        ok = False
        if ok:
            ctx.close("hierarchy/bath-parameters", gl[0], [1.0 / float(b["cortime"]) for b in spec["bath"]], rtol=1e-12,
                      where="decay-rates")
            ctx.close("hierarchy/bath-parameters", gl[1], [b["reorg"] * orc.CM2INT for b in spec["bath"]], rtol=1e-9,
                      atol=1e-300, where="reorganisation-energies")
        ok, got = guarded(ctx, "index/aggregate-interface", sizes)
        if not ok:
            return
        for what, d, hd, hs in got:
            if hd != d or hs != math.comb(n + d, d):
                ctx.fail("index/aggregate-interface", what, requested=d, depth=hd, size=hs, want=math.comb(n + d, d))
                return
    if kind in ("b", "c"):
        depth = case["depth"]
        ok, data = guarded(ctx, "dynamics/propagate", lambda: _propagate(qr, agg, depth, ta, rho0, route, spec=spec, units=pu,
                                                                             ctor_units=cunits, report=rep_), kind)
        if not ok:
            return
        if data.shape != (nt, n + 1, n + 1):
            ctx.fail("dynamics/shape", kind, got=list(data.shape))
            return
        valid(data, kind)
        if kind == "c":
            L = orc.liouvillian_unitary(Hr)
            exact, tau = orc.truncation_profile(L, dt, 4, rho0.reshape(-1), nt - 1)
            err = float(numpy.max(numpy.linalg.norm(data.reshape(nt, -1) - exact, axis=1)))
            ctx.bound("dynamics/zero-coupling-closed-system", err, 3 * tau + 1e-9, where="lam=0", depth=depth)
        return

    # ---- (d) uncoupled sites: convergence with depth to the analytic solution ------------
    T = spec["T"]
    kT = orc.KB_INT * T
    kappa = max(math.sqrt(2 * b["reorg"] * orc.CM2INT * kT) * b["cortime"] for b in spec["bath"])
    stiff = max(6.0 * dt / b["cortime"] for b in spec["bath"])
    if kappa > 1.0 or stiff > 0.35:
        ctx.label("d:outside-convergence-window")
        depths = [2]
    else:
        depths = [1, 2, 4, 6]
    g = [numpy.zeros(len(t), dtype=complex)]
    for b in spec["bath"]:
        g.append(orc.lineshape_g(t, orc.ht_exponentials(b["reorg"] * orc.CM2INT, b["cortime"], T)))
    ref = numpy.zeros((nt, n + 1, n + 1), dtype=complex)
    for a in range(n + 1):
        for c in range(n + 1):
            if a == c:
                ref[:, a, c] = rho0[a, a]
            else:
                ref[:, a, c] = rho0[a, c] * numpy.exp(-1j * (Hr[a, a] - Hr[c, c]) * t - g[a] - numpy.conj(g[c]))
    decouple = case.get("decouple_after", 0) if n >= 2 else 0
    if decouple:
        ctx.label("d:coupling-removed-after-first-use")
    errs = []
    for depth in depths:
        def one_depth():
            if decouple:
                Jc = [[0] * n for _ in range(n)]
                Jc[0][1] = Jc[1][0] = decouple
                a = gens.make_aggregate(qr, dict(spec, J=Jc))
                return _propagate(qr, a, depth, ta, rho0, "ctor", decouple=decouple, units=pu, ctor_units=cunits, report=rep_)
            return _propagate(qr, agg, depth, ta, rho0, route, spec=spec, units=pu, ctor_units=cunits, report=rep_)
        ok, data = guarded(ctx, "dynamics/propagate", one_depth, "d" + ("/decoupled-after-first-use" if decouple else ""))
        if not ok:
            return
        valid(data, "d")
        errs.append(float(numpy.max(numpy.abs(data - ref))))
    if len(depths) == 4:
        ctx.bound("dynamics/pure-dephasing-limit", errs[-1], 1e-4, where="depth6", kappa=round(kappa, 3), errs=errs)
        for i in range(3):
            ctx.bound("dynamics/convergence-monotone", errs[i + 1] - errs[i], 1e-4, where="depth", errs=errs)
        ctx.label("d:convergence-checked")
