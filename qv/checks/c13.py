"""C13  Fourier transforms and time/frequency axes are mutually inverse.

Oracle: the defining Fourier sum evaluated as a dense matrix product
(numpy.exp of an outer product; no FFT, no shifts), and the identity map for
round trips.
"""
import numpy
from hypothesis import strategies as st

ID = "C13"
TECHNIQUE = 'Hypothesis-generated axes/data + complete enumeration of lengths, against the defining Fourier sum (dense matrix product) and the identity round trip'
LEVEL = '(Conversions and transforms also executed inside an energy-units context, complex values also put into a function built from real ones by assignment or apply_to_data, time axes also re-used after handing out their frequency axis and being shifted to zero.) Every length 2..257 (and lengths around powers of two up to 2049), both domains and both axis types are enumerated with fixed data, and starts, steps and complex data are generated; the returned transform is compared point by point with the defining sum on the returned axis, FT followed by inverse FT with the original values and axis, and the axis round trip element-wise (tolerance 1e-10*N relative). Later additions: round trip through a copy of the conjugate axis; backwards-running axes; windowed transforms.'
NOTE = 'Inverse-first round trips and round trips of upper-half frequency-domain functions are not claimed (not stated by the property / not injective). Lengths are enumerated to 257, sampled to 1200 and probed around powers of two up to 2049 (thorough tier).'
EXHAUSTIVE = True
RULE = ("generated: (domain time|frequency, axis type complete|upper-half, length 2..1200, start, step, complex "
        "integer-valued data; f(0) real on upper-half axes); grid: every length 2..64 (quick) / 2..257 (thorough) x "
        "domain x axis type with fixed pseudo-data. Clauses per case: axis round trip; FT == direct sum on the "
        "returned axis (complete axes centred at zero, upper-half time axes starting at 0 with the Hermitian "
        "extension); FT followed by inverse FT returns values and axis. Non-trivial: length >= 3 and data with "
        "non-zero imaginary part.")
ASSUMPTIONS = [
    "length-1 axes have no step and are not generated",
    "upper-half FrequencyAxis of odd length refuses get_TimeAxis (documented exception) and is only checked to refuse",
    "for upper-half frequency-domain functions only the direct-sum clause is claimed: the map to N/2 time points "
    "is not injective, so a round trip is not defined by the property",
    "inverse-transform-first round trips are not claimed by the property text and are not asserted",
]
BUDGET = {"quick": (500, 60), "thorough": (2500, 500)}


def _case(dom, atype, n, centred, k0, step, data):
    return {"dom": dom, "atype": atype, "N": n, "centred": centred, "k0": k0, "step": step, "data": data}


@st.composite
def _cases(draw, nmax):
    dom = draw(st.sampled_from(["time", "freq"]))
    atype = draw(st.sampled_from(["complete", "upper-half"]))
    n = draw(st.integers(2, nmax) | st.integers(2, 12))
    centred = draw(st.booleans())
    k0 = draw(st.integers(-40, 40))
    step = draw(st.sampled_from([0.25, 0.5, 1.0, 2.0, 0.7, 3.1]))
    data = draw(st.lists(st.integers(-9, 9), min_size=2 * n, max_size=2 * n))
    c = _case(dom, atype, n, centred, k0, step, data)
    # the energy units that are current while axes are converted and functions transformed; how the complex values get
    # into the function (constructor / assigned to .data of a function built from real values / apply_to_data); whether
    # the time axis has been used before (asked for its frequency axis, then shifted to zero)
    c["units"] = draw(st.sampled_from([None, None, "1/cm", "eV", "THz"]))
    c["route"] = draw(st.sampled_from(["ctor", "ctor", "assign", "apply"]))
    c["reused"] = draw(st.sampled_from([False, False, True]))
    # time axes may run backwards (negative step); a windowed transform of the same function object made in between
    c["negative_step"] = draw(st.sampled_from([False, False, False, True]))
    c["windowed_between"] = draw(st.sampled_from([False, False, True]))
    return c


def strategy(tier):
    return _cases(65 if tier == "quick" else 1200)


def grid(tier):
    nmax = 64 if tier == "quick" else 257
    for n in range(2, nmax + 1):
        for dom in ("time", "freq"):
            for atype in ("complete", "upper-half"):
                data = [((i * 7919 + n * 31) % 19) - 9 for i in range(2 * n)]
                yield _case(dom, atype, n, True, 0, 1.0, data)
    # lengths around powers of two beyond the enumerated range
    for n in ((127, 128, 129, 255, 256, 257) if tier == "quick" else (511, 512, 513, 1023, 1024, 1025, 2047, 2048, 2049)):
        for dom in ("time", "freq"):
            for atype in ("complete", "upper-half"):
                data = [((i * 7919 + n * 31) % 19) - 9 for i in range(2 * n)]
                yield _case(dom, atype, n, True, 0, 1.0, data)


def dsum(x, f, k, sign, fac):
    """sum_n f(x_n) exp(sign*i*k*x_n) * fac for every k (dense)."""
    return (numpy.exp(sign * 1j * numpy.outer(k, x)) @ f) * fac


def check_case(case, ctx):
    from quantarhei import TimeAxis, FrequencyAxis, DFunction, energy_units
    from ..core import guarded
    dom, atype, n = case["dom"], case["atype"], case["N"]
    step = case["step"]
    if case.get("negative_step") and dom == "time" and not case.get("reused"):
        step = -step
    y = numpy.array(case["data"][:n], dtype=float) + 1j * numpy.array(case["data"][n:], dtype=float)
    centred = case["centred"]
    if atype == "complete" or dom == "freq":
        # (an "upper-half" FrequencyAxis is the full 2N-point axis that belongs to an upper-half TimeAxis)
        start = -(n // 2) * step if centred else case["k0"] * step
    else:
        start = 0.0 if centred else abs(case["k0"]) * step
    if atype == "upper-half":
        y[0] = y[0].real
    ctx.label(dom, atype, "odd" if n % 2 else "even", "centred" if centred else "shifted")
    ctx.mark_nontrivial(n >= 3 and bool(numpy.any(y.imag != 0)))
    tag = "%s/%s/%s" % (dom, atype, "odd" if n % 2 else "even")
    amp = max(1.0, float(numpy.max(numpy.abs(y))))

    with energy_units("int"):
        if dom == "time":
            ax = TimeAxis(start, n, step, atype=atype)
        else:
            ax = FrequencyAxis(start, n, step, atype=atype)
    if case.get("reused") and dom == "time":
        # an axis object with a history: it has handed out its frequency axis and was then shifted to zero
        ok, _ = guarded(ctx, "axis-reuse", lambda: (ax.get_FrequencyAxis(), ax.shift_to_zero()), tag)
        if not ok:
            return
        ctx.label("reused-axis")

    def idata(a):
        with energy_units("int"):
            return numpy.array(a.data, dtype=float)
    x = idata(ax)
    import contextlib
    units = case.get("units")
    ctx.label("units=%s" % units, "route=%s" % case.get("route", "ctor"))
    with (energy_units(units) if units else contextlib.nullcontext()):
        _body(case, ctx, ax, x, y, tag, amp, idata)


def _body(case, ctx, ax, x, y, tag, amp, idata):
    from quantarhei import DFunction
    from ..core import guarded
    dom, atype, n, step, centred = case["dom"], case["atype"], case["N"], case["step"], case["centred"]
    backwards = n >= 2 and x[1] < x[0]
    if backwards:
        # a time axis running backwards: the axis and transform round trips are claimed, the comparison with the
        # defining sum (whose sign convention for a negative dt is not stated) is not
        centred = False
        ctx.label("negative-step")
    if case.get("reused") and dom == "time" and atype == "upper-half":
        centred = centred or True       # after shift_to_zero an upper-half time axis starts at zero
    elif case.get("reused") and dom == "time" and x[0] == 0.0 and atype == "complete":
        centred = False                 # a shifted complete axis is not centred at zero any more
    # ---- axis round trip -------------------------------------------------
    if dom == "freq" and atype == "upper-half" and n % 2 == 1:
        try:
            ax.get_TimeAxis()
            ctx.fail("axis-refusal", tag, why="odd upper-half FrequencyAxis produced a TimeAxis")
        except Exception:
            ctx.label("refused-odd-upper-half")
        return
    ok, back = guarded(ctx, "axis-roundtrip",
                       lambda: ax.get_FrequencyAxis().get_TimeAxis() if dom == "time"
                       else ax.get_TimeAxis().get_FrequencyAxis(), tag)
    if ok:
        span = float(numpy.max(numpy.abs(x))) + step
        if back.length != n or back.atype != atype:
            ctx.fail("axis-roundtrip", tag, length=back.length, atype=back.atype)
        else:
            ctx.close("axis-roundtrip", idata(back), x, rtol=1e-10, scale=span, where=tag)
    # the same round trip through a copy of the conjugate axis (spectrum containers keep copies of axes)
    ok, back = guarded(ctx, "axis-roundtrip",
                       lambda: ax.get_FrequencyAxis().copy().get_TimeAxis() if dom == "time"
                       else ax.get_TimeAxis().copy().get_FrequencyAxis(), tag + "/via-copy")
    if ok:
        span = float(numpy.max(numpy.abs(x))) + step
        if back.length != n or back.atype != atype:
            ctx.fail("axis-roundtrip", tag + "/via-copy", length=back.length, atype=back.atype)
        else:
            ctx.close("axis-roundtrip", idata(back), x, rtol=1e-10, scale=span, where=tag + "/via-copy")

    # ---- transform -------------------------------------------------------
    route = case.get("route", "ctor")
    if route == "assign":
        f = DFunction(ax, numpy.array(y.real, dtype=float))
        f.data = y.copy()
    elif route == "apply":
        f = DFunction(ax, numpy.array(y.real, dtype=float))
        f.apply_to_data(lambda d: d + 1j * y.imag)
    else:
        f = DFunction(ax, y.copy())
    ok, F = guarded(ctx, "fourier-sum", lambda: f.get_Fourier_transform(), tag)
    if not ok:
        return
    if case.get("windowed_between") and dom == "time":
        # a windowed transform of the same function object, then the plain transform again: the function is unchanged
        def windowed():
            win = DFunction(ax, numpy.linspace(1.0, 0.25, n))
            before = numpy.array(f.data)
            Fw = f.get_Fourier_transform(window=win)
            return before, numpy.array(f.data), numpy.array(Fw.data), numpy.array(f.get_Fourier_transform().data)
        ok, wr = guarded(ctx, "fourier-sum", windowed, tag + "/windowed")
        if ok:
            ctx.close("windowed-transform-leaves-function", wr[1], wr[0], rtol=1e-15, scale=amp, where=tag)
            ctx.close("windowed-transform-leaves-function", wr[3], numpy.array(F.data), rtol=1e-12,
                      scale=max(1e-300, float(numpy.max(numpy.abs(F.data)))), where=tag + "/plain-transform-again")
            ctx.label("windowed-between")
    k = idata(F.axis)
    if centred:
        if dom == "time" and atype == "complete":
            ref = dsum(x, y, k, +1, step)
        elif dom == "time":
            xx = numpy.concatenate([-x[:0:-1], x])
            yy = numpy.concatenate([numpy.conj(y[:0:-1]), y])
            ref = dsum(xx, yy, k, +1, step)
        else:
            # frequency-domain function: time points of the returned axis (t >= 0 half for upper-half)
            ref = dsum(x, y, k, +1, step / (2.0 * numpy.pi))
        if ref.shape != numpy.shape(F.data):
            ctx.fail("fourier-sum", tag, why="shape", got=list(numpy.shape(F.data)), want=list(ref.shape))
        else:
            ctx.close("fourier-sum", F.data, ref, rtol=1e-10 * n, scale=amp * n * (step if dom == "time" else step / 6.28),
                      where=tag, N=n)

    # ---- FT then inverse FT ------------------------------------------------
    if dom == "freq" and atype == "upper-half":
        return
    ok, g = guarded(ctx, "ft-roundtrip", lambda: F.get_inverse_Fourier_transform(), tag)
    if not ok:
        return
    if numpy.shape(g.data) != y.shape or g.axis.length != n:
        ctx.fail("ft-roundtrip", tag, why="shape", got=list(numpy.shape(g.data)))
        return
    ctx.close("ft-roundtrip", g.data, y, rtol=1e-10 * n, scale=amp, where=tag, N=n)
    span = float(numpy.max(numpy.abs(x))) + step
    ctx.close("ft-roundtrip-axis", idata(g.axis), x, rtol=1e-10, scale=span, where=tag)
    if type(g.axis) is not type(ax) or g.axis.atype != atype:
        ctx.fail("ft-roundtrip-axis", tag, why="axis type", got=type(g.axis).__name__)
