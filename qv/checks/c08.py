"""C08  Evolution superoperator is an identity-started semigroup matching propagation.

Oracles: the algebraic laws themselves (identity, composition, trace,
Hermiticity), direct propagation with the same internal step, and expm of an
independently assembled GKSL Liouvillian with the exact truncation error.
"""
import numpy
import scipy.linalg
from hypothesis import strategies as st

from .. import oracles as orc
from .. import gens
from ..core import guarded

ID = "C08"
TECHNIQUE = ("Hypothesis-generated (Hamiltonian, time-independent tensor, grid, dense steps, mode, number of incremental "
             "steps, RWA, state) against semigroup/trace/Hermiticity identities, direct propagation and expm of the "
             "GKSL Liouvillian")
LEVEL = ("(Also: apply() with equidistant lists of grid times; identity, semigroup and agreement with the outside result when the calculated superoperator is used inside eigenbasis_of(H).) For generated Lindblad generators (operator/tensor form; with RWA: block-preserving Hamiltonians and projector "
         "jump operators) and secular/non-secular Redfield tensors of generated aggregates: U[0] is exactly the "
         "identity; U[i+j] = U[i]U[j] for every pair on the grid; trace and Hermiticity preservation at every time; "
         "apply(t_i, rho) equals ReducedDensityMatrixPropagator(...).propagate(rho, Nref=dense) and (Lindblad) "
         "expm(L t_i) rho within 3x the exact order-4 truncation error of the dense step; k calls of calculate_next "
         "(jit mode, save on and off) equal calculate()[k]; conversion from the rotating frame equals the "
         "laboratory-frame exponential, also for grids that do not start at zero."
         " Later additions: every documented form of several times in apply(); calculation and conversion in units contexts; pure dephasing in superoperator and direct propagation; step-by-step result converted from the rotating frame. Round five: single-time superoperators taken inside a context; in-place application on real and integer targets; propagator re-used with other refinements.")
NOTE = ("dim <= 4, grids of 3..8 points, 1..10 dense steps, x = dt_dense*||L|| in [0.05, 0.5]. A relaxation tensor is "
        "always supplied (calculate() without one raises). Gaussian pure dephasing and time-dependent tensors are "
        "outside the property ('time-independent generator').")
RULE = ("case = kind lindblad|redfield, H on a 0.001 lattice, operators/rates, grid (start multiple, points, dense "
        "steps, x), jit steps and save flag, RWA split, rho0 = A A+/tr. Non-trivial: dim >= 3, dense >= 2, >= 3 grid "
        "points and a non-zero rate.")
ASSUMPTIONS = [
    "composition of superoperators is numpy.tensordot over two index pairs (the library's own convention for apply)",
    "class-1 tolerance 1e-9 relative for algebraic identities; class-2 bound 3*tau+1e-9 for agreement with expm",
]
BUDGET = {"quick": (600, 80), "thorough": (1500, 700)}

XT = [0.05, 0.1, 0.2, 0.35, 0.5]


@st.composite
def _lind(draw):
    dim = draw(st.integers(2, 4))
    rwa = draw(st.sampled_from([None, None] + list(range(1, dim))))
    H = [[0.0] * dim for _ in range(dim)]
    e1 = draw(st.integers(1000, 2500))
    for i in range(dim):
        for j in range(i, dim):
            if i == j:
                base = 0 if (rwa is None or i < rwa) else e1
                v = base + draw(st.integers(0, 300 if rwa is not None else 1000))
            else:
                same = rwa is None or ((i < rwa) == (j < rwa))
                v = draw(st.integers(-300, 300) | st.just(0)) if same else 0
            H[i][j] = H[j][i] = v / 1000.0
    nops = draw(st.integers(1, 3))
    ops, rates = [], []
    for _ in range(nops):
        if rwa is not None or draw(st.booleans()):
            ops.append({"proj": [draw(st.integers(0, dim - 1)), draw(st.integers(0, dim - 1))]})
        else:
            ops.append({"dense": [[draw(st.integers(-2, 2)) / 2.0 for _ in range(dim)] for _ in range(dim)]})
        rates.append(draw(st.integers(0, 50) | st.integers(1, 10)))
    return {"kind": "lindblad", "H": H, "rwa": rwa, "ops": ops, "rates": rates,
            "form": draw(st.sampled_from(["op", "tensor"])), "A": draw(gens.density_matrix_spec(dim)),
            "nt": draw(st.integers(3, 8)), "dense": draw(st.integers(1, 10) | st.sampled_from([1, 2, 3])),
            "x": draw(st.sampled_from(XT)), "k0": draw(st.sampled_from([0, 0, 0, 2, -1])),
            "jit_steps": draw(st.integers(1, 7)), "save": draw(st.booleans()),
            # additionally: the same model with pure dephasing in the superoperator and in the direct propagation
            "pdeph": draw(st.sampled_from([None, None, "Lorentzian", "Gaussian"])),
            # apply() with a list of equidistant grid times [first index, stride, count] (the list form of apply() builds
            # a TimeAxis from the first two entries), not necessarily starting at the first point; use of the
            # calculated superoperator inside the eigenbasis of the Hamiltonian
            "tlist": draw(st.sampled_from([None, None]) | st.tuples(st.integers(0, 4), st.integers(1, 3), st.integers(2, 5)).map(list)),
            "in_basis": draw(st.booleans()),
            # the superoperator object was calculated before with another dense step; the propagator used for the
            # comparison refused a call (unknown method, refinement argument given) before
            "recalc_from": draw(st.sampled_from([None, None, 1, 3])), "refused_first": draw(st.booleans()),
            # the superoperator is calculated (and converted back from the rotating frame) while other units are current
            "calc_units": draw(st.sampled_from([None, None, None, "1/cm", "eV", "THz"]))}


@st.composite
def _red(draw):
    spec = draw(gens.system_spec(nmin=2, nmax=3, coupled=True, tmin=77, tmax=350, ntmax=300, spread=400, jmax=250,
                                 dipoles=False))
    n = len(spec["E"])
    return {"kind": "redfield", "spec": spec, "secular": draw(st.booleans()), "as_ops": draw(st.booleans()),
            "A": draw(gens.density_matrix_spec(n + 1)), "nt": draw(st.integers(3, 6)),
            "mult": draw(st.integers(2, 10)), "dense": draw(st.sampled_from([1, 2, 5])),
            "jit_steps": draw(st.integers(1, 5)), "save": draw(st.booleans()),
            "tlist": draw(st.sampled_from([None, None]) | st.tuples(st.integers(0, 4), st.integers(1, 3), st.integers(2, 5)).map(list)),
            "in_basis": draw(st.booleans()),
            # the superoperator object was calculated before with another dense step; the propagator used for the
            # comparison refused a call (unknown method, refinement argument given) before
            "recalc_from": draw(st.sampled_from([None, None, 1, 3])), "refused_first": draw(st.booleans()),
            # the superoperator is calculated (and converted back from the rotating frame) while other units are current
            "calc_units": draw(st.sampled_from([None, None, None, "1/cm", "eV", "THz"]))}


def strategy(tier):
    return st.one_of(_lind(), _lind(), _lind(), _red())


def _identity(dim):
    I = numpy.zeros((dim, dim, dim, dim), dtype=complex)
    for a in range(dim):
        for b in range(dim):
            I[a, b, a, b] = 1.0
    return I


def _laws(ctx, data, tag):
    """identity start, semigroup, trace, Hermiticity on a full-grid superoperator array"""
    nt, dim = data.shape[0], data.shape[1]
    if not numpy.array_equal(data[0], _identity(dim)):
        ctx.fail("identity-at-zero", tag, dev=float(numpy.max(numpy.abs(data[0] - _identity(dim)))))
    scale = max(1.0, float(numpy.max(numpy.abs(data)))) ** 2
    worst = 0.0
    for i in range(nt):
        for j in range(nt - i):
            comp = numpy.tensordot(data[i], data[j])
            worst = max(worst, float(numpy.max(numpy.abs(comp - data[i + j]))))
    ctx.bound("semigroup", worst, 1e-9 * scale * nt, where=tag)
    tr = numpy.einsum("taacd->tcd", data)
    ctx.close("trace-preserving", tr, numpy.broadcast_to(numpy.eye(dim), tr.shape), rtol=1e-9, scale=scale, where=tag)
    ctx.close("hermiticity-preserving", numpy.conj(data), numpy.transpose(data, (0, 2, 1, 4, 3)), rtol=1e-9,
              scale=scale, where=tag)


def _more_uses(qr, case, eso, time, ham, rho0, nt):
    """further uses of a calculated superoperator: apply() with a list of times, and use inside a basis context"""
    from quantarhei.qm import ReducedDensityMatrix
    extra = {}
    idx = []
    if case.get("tlist"):
        i0, stride, count = case["tlist"]
        idx = [i for i in range(i0 % nt, nt, stride)][:count]
    if len(idx) >= 2:
        # the documented forms of "several times": list, tuple, array, a TimeAxis, or the string "all"
        form = ["list", "tuple", "array", "axis", "all"][(case["tlist"][0] + case["tlist"][1] + case["tlist"][2]) % 5]
        times = [float(time.data[i]) for i in idx]
        if form == "tuple":
            arg = tuple(times)
        elif form == "array":
            arg = numpy.array(times)
        elif form == "axis":
            arg = qr.TimeAxis(times[0], len(times), float(time.step) * (idx[1] - idx[0]))
        elif form == "all":
            arg, idx = "all", list(range(nt))
        else:
            arg = times
        res = eso.apply(arg, ReducedDensityMatrix(data=rho0.copy()))
        extra["list"] = (idx, numpy.array(res.data))
        extra["form"] = form
    if case.get("in_basis"):
        rin = ReducedDensityMatrix(data=rho0.copy())
        with qr.eigenbasis_of(ham):
            dat_in = numpy.array(eso.data)
            outs = [eso.apply(float(t), rin) for t in time.data]
            rho_in = numpy.array(rin.data)
            seen = [numpy.array(o.data) for o in outs]
            # the superoperator at single times is taken out inside the context as well (objects of their own)
            taken = [eso.at(float(t)) for t in list(time.data)[1::2]]
        extra["in_basis"] = (dat_in, numpy.array([numpy.array(o.data) for o in outs]), rho_in, numpy.array(seen),
                             numpy.array(eso.data))
    # application in place (copy=False) on states whose data are complex, real and integer arrays: the same result
    tk = float(time.data[min(nt - 1, 2)])
    want_ip = numpy.array(eso.apply(tk, ReducedDensityMatrix(data=rho0.copy())).data)
    got_ip = {}
    for name, arr in (("complex", rho0.astype(complex)), ("real", numpy.real(numpy.diag(numpy.diag(rho0))).astype(float)),
                      ("integer", numpy.diag([1] + [0] * (rho0.shape[0] - 1)))):
        target = ReducedDensityMatrix(data=arr.copy())
        ref_t = numpy.array(eso.apply(tk, ReducedDensityMatrix(data=arr.astype(complex))).data)
        res = eso.apply(tk, target, copy=False)
        got_ip[name] = (numpy.array(target.data), ref_t)
    extra["inplace"] = got_ip
    return extra


def _check_more(ctx, extra, data, applied, tag):
    for name, (got, want) in (extra.get("inplace") or {}).items():
        ctx.close("apply-in-place-equals-copy", got, want, rtol=1e-10, scale=1.0, where=tag + "/" + name + "-target")
    if "list" in extra:
        idx, got = extra["list"]
        if got.shape[0] != len(idx):
            ctx.fail("apply-list-of-times", tag, why="length", got=int(got.shape[0]), want=len(idx))
        else:
            ctx.close("apply-list-of-times", got, applied[idx], rtol=1e-9, scale=max(1.0, float(numpy.max(numpy.abs(applied)))),
                      where=tag, first_index=idx[0])
        ctx.label("apply-list:first=%s" % ("0" if idx[0] == 0 else ">0"), "apply-form:" + extra.get("form", "list"))
    if "in_basis" in extra:
        dat_in, outs, rho_in, seen, dat_after = extra["in_basis"]
        nt, dim = dat_in.shape[0], dat_in.shape[1]
        sc = max(1.0, float(numpy.max(numpy.abs(dat_in)))) ** 2
        ctx.bound("in-basis/identity-at-zero", float(numpy.max(numpy.abs(dat_in[0] - _identity(dim)))), 1e-9, where=tag)
        worst = 0.0
        for i in range(nt):
            for j in range(nt - i):
                worst = max(worst, float(numpy.max(numpy.abs(numpy.tensordot(dat_in[i], dat_in[j]) - dat_in[i + j]))))
        ctx.bound("in-basis/semigroup", worst, 1e-9 * sc * nt, where=tag)
        # inside the context: U(t) acting on the state as presented there gives the result as presented there
        act = numpy.array([numpy.tensordot(dat_in[i], rho_in) for i in range(nt)])
        ctx.close("in-basis/apply-consistent", seen, act, rtol=1e-9, scale=max(1.0, float(numpy.max(numpy.abs(act)))), where=tag)
        # read after the context is closed: the same as computed outside
        ctx.close("in-basis/apply-equals-outside", outs, applied, rtol=1e-9, scale=max(1.0, float(numpy.max(numpy.abs(applied)))),
                  where=tag)
        ctx.close("in-basis/restored", dat_after, data, rtol=1e-9, scale=max(1.0, float(numpy.max(numpy.abs(data)))), where=tag)
        ctx.label("used-in-basis-context")


def _jit(ctx, make, data, case, tag, lab=None):
    """k calls of calculate_next equal calculate()[k]"""
    from quantarhei.qm import EvolutionSuperOperator
    nt = data.shape[0]
    k = min(case["jit_steps"], nt - 1)
    save = case["save"]

    def run():
        time, ham, relt = make()
        eso = EvolutionSuperOperator(time, ham, relt, mode="jit")
        eso.set_dense_dt(case["dense"])
        out = []
        for _ in range(k):
            eso.calculate_next(save=save)
            d = numpy.array(eso.data)
            out.append(d.copy())
        conv = None
        if save and lab is not None:
            # the stored step-by-step result converted back from the rotating frame, like the all-at-once one
            eso.convert_from_RWA()
            conv = numpy.array(eso.data)
        return out, conv
    ok, oc = guarded(ctx, "stepwise", run, tag + ("/save" if save else "/nosave"))
    if not ok:
        return
    out, conv = oc
    if conv is not None:
        ctx.close("stepwise-equals-all", conv[:k + 1], lab[:k + 1], rtol=1e-10,
                  scale=max(1.0, float(numpy.max(numpy.abs(lab)))), where=tag + "/save/converted-from-rwa", step=k)
    scale = max(1.0, float(numpy.max(numpy.abs(data))))
    for step, d in enumerate(out, start=1):
        if save:
            if d.shape != data.shape:
                ctx.fail("stepwise-equals-all", tag + "/save", why="shape", got=list(d.shape))
                return
            ctx.close("stepwise-equals-all", d[:step + 1], data[:step + 1], rtol=1e-10, scale=scale,
                      where=tag + "/save", step=step)
        else:
            if d.shape != data.shape[1:]:
                ctx.fail("stepwise-equals-all", tag + "/nosave", why="shape", got=list(d.shape))
                return
            ctx.close("stepwise-equals-all", d, data[step], rtol=1e-10, scale=scale, where=tag + "/nosave", step=step)
    ctx.label("jit:%s:k=%d" % ("save" if save else "nosave", k))


def check_case(case, ctx):
    if case["kind"] == "lindblad":
        return _check_lind(case, ctx)
    return _check_red(case, ctx)


def _check_lind(case, ctx):
    import quantarhei as qr
    from quantarhei.qm import (EvolutionSuperOperator, ReducedDensityMatrixPropagator, ReducedDensityMatrix,
                               LindbladForm, SystemBathInteraction, Operator)
    H = numpy.array(case["H"], dtype=float)
    dim = H.shape[0]
    rwa, dense, nt = case["rwa"], case["dense"], case["nt"]
    ops = []
    for o in case["ops"]:
        if "proj" in o:
            K = numpy.zeros((dim, dim))
            K[o["proj"][0] % dim, o["proj"][1] % dim] = 1.0
        else:
            K = numpy.array(o["dense"], dtype=float)
        ops.append(K)
    rates = [r / 1000.0 for r in case["rates"]]
    rho0 = gens.density_matrix(case["A"])
    Om = numpy.zeros(dim)
    if rwa is not None:
        Om[:rwa] = numpy.mean(numpy.diag(H)[:rwa])
        Om[rwa:] = numpy.mean(numpy.diag(H)[rwa:])
    Lprop = orc.liouvillian_lindblad(H - numpy.diag(Om), ops, rates)
    Llab = orc.liouvillian_lindblad(H, ops, rates)
    norm = max(float(numpy.linalg.norm(Lprop, 2)), 0.02 * float(numpy.linalg.norm(Llab, 2)), 1e-3)
    dtd = case["x"] / norm
    step = dtd * dense
    k0 = case["k0"]
    tag = "lindblad/%s/%s%s" % (case["form"], "rwa" if rwa is not None else "lab", "/t0" if k0 else "")
    ctx.label("lindblad", "form=" + case["form"], "rwa" if rwa is not None else "lab", "dense=%d" % min(dense, 4),
              "t0!=0" if k0 else "t0=0")
    ctx.mark_nontrivial(dim >= 3 and dense >= 2 and nt >= 3 and any(r > 0 for r in rates))

    def make():
        time = qr.TimeAxis(k0 * step, nt, step)
        with qr.energy_units("int"):
            ham = qr.Hamiltonian(data=H.copy())
        if rwa is not None:
            ham.set_rwa([0, rwa])
        sbi = SystemBathInteraction([Operator(data=K.copy()) for K in ops], rates=tuple(rates))
        relt = LindbladForm(ham, sbi, as_operators=(case["form"] == "op"))
        return time, ham, relt

    def run_all():
        time, ham, relt = make()
        eso = EvolutionSuperOperator(time, ham, relt, mode="all")
        if case.get("recalc_from") and case["recalc_from"] != dense:
            eso.set_dense_dt(case["recalc_from"])
            eso.calculate()
        eso.set_dense_dt(dense)
        cu(eso.calculate)
        data = numpy.array(eso.data)
        # apply at every grid time
        applied = [numpy.array(eso.apply(float(t), ReducedDensityMatrix(data=rho0.copy())).data) for t in time.data]
        # direct propagation with the same internal step
        time2, ham2, relt2 = make()
        prop = ReducedDensityMatrixPropagator(time2, ham2, relt2)
        if case.get("refused_first"):
            try:
                prop.propagate(ReducedDensityMatrix(data=rho0.copy()), method="no-such-method", Nref=7)
            except Exception:
                pass
        rt = prop.propagate(ReducedDensityMatrix(data=rho0.copy()), Nref=dense)
        direct = numpy.array(rt.data)
        extra = _more_uses(qr, case, eso, time, ham, rho0, nt)
        lab = None
        if rwa is not None:
            cu(eso.convert_from_RWA)
            lab = numpy.array(eso.data)
        return data, numpy.array(applied), direct, lab, extra
    def cu(fn):
        if case.get("calc_units"):
            with qr.energy_units(case["calc_units"]):
                return fn()
        return fn()
    if case.get("calc_units"):
        ctx.label("calculated-in-units:" + case["calc_units"])
    ok, r = guarded(ctx, "calculate", run_all, tag)
    if not ok:
        return
    data, applied, direct, lab, extra = r
    if data.shape != (nt, dim, dim, dim, dim):
        ctx.fail("shape", tag, got=list(data.shape))
        return
    _laws(ctx, data, tag)
    ctx.close("apply-equals-propagation", applied, direct, rtol=1e-8, scale=1.0, where=tag, dense=dense)
    _check_more(ctx, extra, data, applied, tag)
    # agreement with the exact exponential (frame that was propagated)
    exact_r, tau = orc.truncation_profile(Lprop, dtd, 4, rho0.reshape(-1), (nt - 1) * dense)
    exact = exact_r[::dense].reshape(nt, dim, dim)
    bound = 3 * tau + 1e-9
    ctx.bound("apply-equals-exponential", float(numpy.max(numpy.linalg.norm((applied - exact).reshape(nt, -1), axis=1))),
              bound, where=tag, dense=dense, x=case["x"])
    if lab is not None:
        # laboratory frame: U_lab(tau_i) = expm(L_lab * tau_i), tau_i = elapsed time on the grid
        if not numpy.array_equal(lab[0], _identity(dim)) and float(numpy.max(numpy.abs(lab[0] - _identity(dim)))) > 1e-12:
            ctx.fail("rwa-conversion/identity-at-zero", tag, dev=float(numpy.max(numpy.abs(lab[0] - _identity(dim)))))
        worst = 0.0
        for i in range(nt):
            Ue = scipy.linalg.expm(Llab * (i * step)).reshape(dim, dim, dim, dim)
            worst = max(worst, float(numpy.linalg.norm(numpy.tensordot(lab[i], rho0) - numpy.tensordot(Ue, rho0))))
        ctx.bound("rwa-conversion/equals-lab-exponential", worst,
                  bound + 1e-13 * float(numpy.linalg.norm(H, 2)) * abs(step) * (nt + abs(k0)), where=tag)
    _jit(ctx, make, data, case, tag, lab=lab)
    if case.get("pdeph"):
        # with pure dephasing the superoperator and the direct propagation use the same splitting; they have to agree
        # (no exact exponential is claimed here: dephasing rates and generator need not commute)
        from quantarhei.qm import PureDephasing
        g = 0.02 * (numpy.ones((dim, dim)) - numpy.eye(dim)) * (1.0 + numpy.add.outer(numpy.arange(dim), numpy.arange(dim)) / 4.0)
        if case["pdeph"] == "Gaussian":
            g = g / (20.0 * max(1e-9, abs(step)))

        def run_pd():
            time, ham, relt = make()
            eso = EvolutionSuperOperator(time, ham, relt, pdeph=PureDephasing(drates=g.copy(), dtype=case["pdeph"]),
                                         mode="all")
            eso.set_dense_dt(dense)
            eso.calculate()
            ap = [numpy.array(eso.apply(float(t), ReducedDensityMatrix(data=rho0.copy())).data) for t in time.data]
            time2, ham2, relt2 = make()
            prop = ReducedDensityMatrixPropagator(time2, ham2, relt2,
                                                  PDeph=PureDephasing(drates=g.copy(), dtype=case["pdeph"]))
            # the propagator is used with another refinement first (a convergence check), then with the one compared
            prop.propagate(ReducedDensityMatrix(data=rho0.copy()), Nref=dense + 3)
            prop.setDtRefinement(2 * dense + 1)
            prop.propagate(ReducedDensityMatrix(data=rho0.copy()))
            prop.setDtRefinement(1)
            rt = prop.propagate(ReducedDensityMatrix(data=rho0.copy()), Nref=dense)
            return numpy.array(ap), numpy.array(rt.data)
        ok, r = guarded(ctx, "calculate", run_pd, tag + "/pdeph-" + case["pdeph"])
        if ok:
            ctx.label("pure-dephasing:" + case["pdeph"])
            ctx.close("apply-equals-propagation", r[0], r[1], rtol=1e-8, scale=1.0,
                      where=tag + "/pdeph-" + case["pdeph"], dense=dense)


def _check_red(case, ctx):
    import quantarhei as qr
    from quantarhei.qm import EvolutionSuperOperator, ReducedDensityMatrixPropagator, ReducedDensityMatrix
    spec = case["spec"]
    n = len(spec["E"])
    dim = n + 1
    rho0 = gens.density_matrix(case["A"])
    dense, nt = case["dense"], case["nt"]
    t0, ntb, dtb = spec["time"]
    mult = case["mult"]
    tag = "redfield/%s/%s" % ("secular" if case["secular"] else "full", "ops" if case["as_ops"] else "tensor")
    ctx.label("redfield", "secular" if case["secular"] else "full", "ops" if case["as_ops"] else "tensor")
    ctx.mark_nontrivial(dense >= 2 and nt >= 3)

    def make():
        agg = gens.make_aggregate(qr, spec)
        tb = qr.TimeAxis(t0, int(ntb), dtb)
        relt, ham = agg.get_RelaxationTensor(tb, relaxation_theory="standard_Redfield",
                                             secular_relaxation=case["secular"], as_operators=case["as_ops"])
        time = qr.TimeAxis(0.0, nt, dtb * mult)
        return time, ham, relt

    def run_all():
        time, ham, relt = make()
        eso = EvolutionSuperOperator(time, ham, relt, mode="all")
        if case.get("recalc_from") and case["recalc_from"] != dense:
            eso.set_dense_dt(case["recalc_from"])
            eso.calculate()
        eso.set_dense_dt(dense)
        cu(eso.calculate)
        data = numpy.array(eso.data)
        applied = [numpy.array(eso.apply(float(t), ReducedDensityMatrix(data=rho0.copy())).data) for t in time.data]
        time2, ham2, relt2 = make()
        prop = ReducedDensityMatrixPropagator(time2, ham2, relt2)
        if case.get("refused_first"):
            try:
                prop.propagate(ReducedDensityMatrix(data=rho0.copy()), method="no-such-method", Nref=7)
            except Exception:
                pass
        rt = prop.propagate(ReducedDensityMatrix(data=rho0.copy()), Nref=dense)
        extra = _more_uses(qr, case, eso, time, ham, rho0, nt)
        return data, numpy.array(applied), numpy.array(rt.data), extra
    def cu(fn):
        if case.get("calc_units"):
            with qr.energy_units(case["calc_units"]):
                return fn()
        return fn()
    if case.get("calc_units"):
        ctx.label("calculated-in-units:" + case["calc_units"])
    ok, r = guarded(ctx, "calculate", run_all, tag)
    if not ok:
        return
    data, applied, direct, extra = r
    if not numpy.all(numpy.isfinite(data)):
        ctx.fail("finite", tag)
        return
    _laws(ctx, data, tag)
    scale = max(1.0, float(numpy.max(numpy.abs(direct))))
    ctx.close("apply-equals-propagation", applied, direct, rtol=1e-8, scale=scale, where=tag, dense=dense)
    _check_more(ctx, extra, data, applied, tag)
    _jit(ctx, make, data, case, tag)
