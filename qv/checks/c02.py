"""C02  Propagated density matrices stay valid states and follow the generator.

Oracles: GKSL Liouvillian from Kronecker products + scipy.linalg.expm;
exact unitary evolution from expm; exact truncation error of the order-L
Taylor map (oracles.truncation_profile) as the stated bound.
"""
import numpy
import scipy.linalg
from hypothesis import strategies as st

from .. import oracles as orc
from .. import gens
from ..core import guarded

ID = "C02"
TECHNIQUE = ("Hypothesis-generated (Hamiltonian, generator, state, axis, order, refinement, form, RWA, dephasing) "
             "against expm of an independently assembled Liouvillian with the exact Taylor truncation error as bound")
LEVEL = ("closed systems (Hamiltonian and its rotating-wave setting defined outside or inside an energy-units context; propagation outside or inside a basis context): stored states vs exact U rho U+ within 3x the exact truncation error of the order-L map for "
         "the generated step, conservation of trace/purity/energy, state-vector vs density-matrix propagation, "
         "rotating-frame propagation converted back vs laboratory-frame exact dynamics; Lindblad generators (operator "
         "and tensor form, projector and dense real operators): agreement with expm of the GKSL Liouvillian within "
         "the same bound, positive semidefiniteness, trace, Hermiticity; Redfield tensors of generated aggregates "
         "(static/time dependent, operator/tensor form, secular, with Lorentzian/Gaussian pure dephasing): trace and "
         "Hermiticity at every stored time."
         " Later additions: calls made while other energy units are current (propagation, frame conversion); rotating frame in the commuting Lindblad + dephasing cases; repeated frame conversions; state-vector evolutions turned into density-matrix evolutions before the conversion. Round five: stored state vectors read in the eigenbasis of the Hamiltonian; the aggregate's own pure-dephasing object.")
NOTE = ("x = dt_refined*||L||_2 is generated in [0.05, 0.5]; dim <= 5; <= 60 stored times (Redfield: the bath's time "
        "axis, <= 150). RWA clause only without relaxation and for block-diagonal Hamiltonians (where the rotating "
        "frame is an exact transformation); Lindblad clauses in the laboratory frame. Positivity is not claimed for "
        "Redfield or pure-dephasing dynamics.")
RULE = ("kind closed|lindblad|redfield; H symmetric on a 0.001 lattice; rho0 = A A+/tr from Gaussian-integer A; order "
        "2|4|6; Nref 1|2|5; x target; RWA block split; Lindblad: 1..4 operators (|i><j| or dense), rates k/1000. "
        "Non-trivial: rho0 has a coherence >= 0.05, H not diagonal and (lindblad) a positive rate on a non-diagonal "
        "operator.")
ASSUMPTIONS = [
    "bound = 3*max_n ||T^n rho0 - E^n rho0|| + 1e-9 with T the order-L Taylor map and E = expm(L*dt) of the oracle's "
    "Liouvillian; a scheme at least as accurate as the order-L expansion passes",
    "trace/Hermiticity tolerance 1e-9 relative (class 1)",
]
BUDGET = {"quick": (900, 90), "thorough": (2500, 700)}

XT = [0.05, 0.1, 0.2, 0.35, 0.5]


@st.composite
def _closed(draw):
    dim = draw(st.integers(2, 5))
    rwa = draw(st.sampled_from([None, None] + list(range(1, dim))))
    H = [[0.0] * dim for _ in range(dim)]
    e1 = draw(st.integers(1000, 2500))
    for i in range(dim):
        for j in range(i, dim):
            if i == j:
                base = 0 if (rwa is None or i < rwa) else e1
                v = base + draw(st.integers(0, 300 if rwa is not None else 1000))
            else:
                same = rwa is None or ((i < rwa) == (j < rwa))
                v = draw(st.integers(-300, 300) | st.just(0)) if same else 0
            H[i][j] = H[j][i] = v / 1000.0
    return {"kind": "closed", "H": H, "rwa": rwa, "A": draw(gens.density_matrix_spec(dim)),
            "order": draw(st.sampled_from([2, 4, 6])), "nref": draw(st.sampled_from([1, 2, 5])),
            "x": draw(st.sampled_from(XT)), "nt": draw(st.integers(5, 60)),
            # propagate inside `with eigenbasis_of(H)` (state created outside, result read outside)
            "ctx": draw(st.booleans()), "ham_units": draw(st.sampled_from([None, None, "1/cm", "eV", "THz"])),
            # history of the objects before the propagation that is checked: the RWA Hamiltonian looked at while other
            # units are current; a propagate(..., Nref=k) call that the propagator refused; the initial state-vector
            # object overwritten after its propagation
            "look_units": draw(st.sampled_from([None, None, "1/cm", "eV"])),
            "refused_first": draw(st.sampled_from([False, False, True])),
            "reuse_psi": draw(st.booleans()),
            # the conversion back to the laboratory frame is made while other energy units are current
            "convert_units": draw(st.sampled_from([None, None, "1/cm", "eV", "THz"])),
            # further frame conversions of the finished evolution: converting from the rotating frame a second time
            # (has to do nothing), or to the rotating frame and back again
            "reconvert": draw(st.sampled_from([None, None, "from-again", "to-and-from"])),
            # the caller propagates while other energy units are current
            "prop_units": draw(st.sampled_from([None, None, None, "1/cm", "eV", "THz"])),
            # start of the time axis in units of the step
            "k0": draw(st.sampled_from([0, 0, 0, 3, -2, 10]))}


@st.composite
def _lindblad(draw):
    dim = draw(st.integers(2, 5))
    H = draw(gens.symmetric_matrix(dim, -300, 300, 0.001, 0, 1000))
    nops = draw(st.integers(1, 4))
    ops, rates = [], []
    for _ in range(nops):
        if draw(st.booleans()):
            ops.append({"proj": [draw(st.integers(0, dim - 1)), draw(st.integers(0, dim - 1))]})
        else:
            ops.append({"dense": [[draw(st.integers(-2, 2)) / 2.0 for _ in range(dim)] for _ in range(dim)]})
        rates.append(draw(st.integers(0, 50) | st.integers(1, 10)))
    pd = None
    if draw(st.sampled_from([False, False, True])):
        # diagonal Hamiltonian + projector jump operators + pure dephasing: all parts of the generator commute,
        # so the exact solution is known also with dephasing applied after every refined step
        H = [[H[i][j] if i == j else 0.0 for j in range(dim)] for i in range(dim)]
        ops = [{"proj": [draw(st.integers(0, dim - 1)), draw(st.integers(0, dim - 1))]} for _ in range(nops)]
        g = [[0] * dim for _ in range(dim)]
        for i in range(dim):
            for j in range(i + 1, dim):
                g[i][j] = g[j][i] = draw(st.integers(0, 40))
        pd = {"dtype": draw(st.sampled_from(["Lorentzian", "Gaussian"])), "rates": g}
    # (commuting case only, where the frame rotation leaves the dissipator unchanged) the Hamiltonian may carry a
    # rotating-wave reference: propagated in that frame and converted back
    lrwa = draw(st.sampled_from([None] + list(range(1, dim)))) if pd is not None else None
    return {"kind": "lindblad", "H": H, "ops": ops, "rates": rates, "pdeph": pd, "rwa": lrwa,
            "form": draw(st.sampled_from(["op", "tensor", "converted"])),
            "A": draw(gens.density_matrix_spec(dim)),
            "order": draw(st.sampled_from([2, 4, 6])), "nref": draw(st.sampled_from([1, 2, 5])),
            "x": draw(st.sampled_from(XT)), "nt": draw(st.integers(5, 60)),
            "prop_units": draw(st.sampled_from([None, None, None, "1/cm", "eV", "THz"]))}


@st.composite
def _redfield(draw):
    spec = draw(gens.system_spec(nmin=2, nmax=3, coupled=True, tmin=77, tmax=350, ntmax=150, spread=400, jmax=250,
                                 dipoles=False))
    n = len(spec["E"])
    pd = None
    if draw(st.booleans()):
        rates = [[0] * (n + 1) for _ in range(n + 1)]
        for i in range(n + 1):
            for j in range(i + 1, n + 1):
                rates[i][j] = rates[j][i] = draw(st.integers(0, 30))
        pd = {"dtype": draw(st.sampled_from(["Lorentzian", "Gaussian"])), "rates": rates}
    td, as_ops = draw(st.booleans()), draw(st.booleans())
    # the time-dependent tensor documents that it cannot be secularised in operator form
    secular = False if (td and as_ops) else draw(st.booleans())
    if pd is not None and not td and draw(st.sampled_from([False, True])):
        # the dephasing object is the aggregate's own (electronic pure dephasing from the molecules' dephasing rates)
        pd = dict(pd, source="aggregate")
    return {"kind": "redfield", "spec": spec, "td": td, "as_ops": as_ops,
            "secular": secular, "pdeph": pd, "A": draw(gens.density_matrix_spec(n + 1)),
            "order": draw(st.sampled_from([2, 4, 6])), "nref": draw(st.sampled_from([1, 2])),
            "prop_units": draw(st.sampled_from([None, None, None, "1/cm", "eV", "THz"]))}


def _caller_units(qr, case, ctx):
    """calls made the way the case's caller makes them: while other energy units are current, or not"""
    units = case.get("prop_units")
    if units:
        ctx.label("propagated-in-units:" + units)

    def call(fn):
        if units:
            with qr.energy_units(units):
                return fn()
        return fn()
    return call


def strategy(tier):
    return st.one_of(_closed(), _closed(), _lindblad(), _lindblad(), _redfield())


def _valid(ctx, data, tag):
    tr = numpy.trace(data, axis1=1, axis2=2)
    ctx.close("valid/trace", tr, numpy.ones(len(tr)), rtol=1e-9, atol=1e-12, where=tag)
    ctx.close("valid/hermitian", data, numpy.conj(numpy.transpose(data, (0, 2, 1))), rtol=1e-9, scale=1.0, where=tag)


def check_case(case, ctx):
    kind = case["kind"]
    rho0 = gens.density_matrix(case["A"])
    coh = float(numpy.max(numpy.abs(rho0 - numpy.diag(numpy.diag(rho0)))))
    ctx.label(kind, "order=%d" % case["order"], "nref=%d" % case["nref"])
    if kind == "closed":
        return _check_closed(case, ctx, rho0, coh)
    if kind == "lindblad":
        return _check_lindblad(case, ctx, rho0, coh)
    return _check_redfield(case, ctx, rho0, coh)


def _check_closed(case, ctx, rho0, coh):
    import quantarhei as qr
    from quantarhei.qm import ReducedDensityMatrixPropagator, ReducedDensityMatrix, StateVectorPropagator
    H = numpy.array(case["H"], dtype=float)
    dim = H.shape[0]
    rwa, order, nref = case["rwa"], case["order"], case["nref"]
    offdiag = bool(numpy.any(H - numpy.diag(numpy.diag(H)) != 0))
    ctx.mark_nontrivial(coh >= 0.05 and offdiag)
    ctx.label("rwa" if rwa is not None else "lab")
    Om = numpy.zeros(dim)
    if rwa is not None:
        Om[:rwa] = numpy.mean(numpy.diag(H)[:rwa])
        Om[rwa:] = numpy.mean(numpy.diag(H)[rwa:])
    Hprop = H - numpy.diag(Om)
    L = orc.liouvillian_unitary(Hprop)
    # step from the frame that is propagated; floored so that a vanishing rotating-frame generator does not
    # produce astronomically long axes
    # (the state-vector generator -iH has norm ||H||, the Liouvillian only sees energy differences)
    norm = max(float(numpy.linalg.norm(L, 2)), float(numpy.linalg.norm(Hprop, 2)),
               0.02 * float(numpy.linalg.norm(orc.liouvillian_unitary(H), 2)), 1e-3)
    dtr = case["x"] / norm
    dt = dtr * nref
    nt = case["nt"]
    k0 = case.get("k0", 0)
    ta = qr.TimeAxis(k0 * dt, nt, dt)
    t = numpy.arange(nt) * dt            # time elapsed since the initial condition
    inctx = bool(case.get("ctx"))
    tag = "closed/" + ("rwa" if rwa is not None else "lab") + ("/in-context" if inctx else "") + ("/t0" if k0 else "")
    ctx.label("in-context" if inctx else "no-context", "t0!=0" if k0 else "t0=0")
    if rwa is not None and case.get("convert_units"):
        ctx.label("converted-back-in-units:" + case["convert_units"])
    if rwa is not None and case.get("reconvert"):
        ctx.label("frame-converted-again:" + case["reconvert"])

    def run():
        hu = case.get("ham_units")
        if hu:
            # the usual place where Hamiltonians are defined: inside a units context, RWA set there as well
            with qr.energy_units(hu):
                ham = qr.Hamiltonian(data=numpy.array(orc.convert(H, "int", hu)))
                if rwa is not None:
                    ham.set_rwa([0, rwa])
        else:
            with qr.energy_units("int"):
                ham = qr.Hamiltonian(data=H.copy())
            if rwa is not None:
                ham.set_rwa([0, rwa])
        if case.get("look_units"):
            with qr.energy_units(case["look_units"]):
                ham.data
                if rwa is not None:
                    ham.get_RWA_data()
        prop = ReducedDensityMatrixPropagator(ta, ham)
        rhoi = ReducedDensityMatrix(data=rho0.copy())
        if case.get("refused_first"):
            try:
                prop.propagate(rhoi, method="no-such-method", Nref=5)
            except Exception:
                pass
        if inctx:
            with qr.eigenbasis_of(ham):
                rt = cu(lambda: prop.propagate(rhoi, method="short-exp-%d" % order, Nref=nref))
        else:
            rt = cu(lambda: prop.propagate(rhoi, method="short-exp-%d" % order, Nref=nref))
        if rwa is not None:
            if case.get("convert_units"):
                with qr.energy_units(case["convert_units"]):
                    rt.convert_from_RWA(ham)
            else:
                rt.convert_from_RWA(ham)
            if case.get("reconvert") == "from-again":
                rt.convert_from_RWA(ham)
            elif case.get("reconvert") == "to-and-from":
                rt.convert_to_RWA(ham)
                rt.convert_from_RWA(ham)
        return ham, numpy.array(rt.data)
    cu = _caller_units(qr, case, ctx)
    ok, r = guarded(ctx, "closed/propagate", run, tag)
    if not ok:
        return
    ham, data = r
    if data.shape != (nt, dim, dim):
        ctx.fail("closed/shape", tag, got=list(data.shape))
        return
    _valid(ctx, data, tag)
    # exact truncation error in the frame that was propagated (refined steps)
    nsteps = (nt - 1) * nref
    exact_r, tau = orc.truncation_profile(L, dtr, order, rho0.reshape(-1), nsteps)
    bound = 3 * tau + 1e-9 + 1e-13 * float(numpy.linalg.norm(H, 2)) * dt * nt
    # exact laboratory-frame dynamics
    ev, S = numpy.linalg.eigh(H)
    ref = numpy.zeros((nt, dim, dim), dtype=complex)
    for k in range(nt):
        U = (S * numpy.exp(-1j * ev * t[k])) @ S.conj().T
        ref[k] = U @ rho0 @ U.conj().T
    err = float(numpy.max(numpy.linalg.norm((data - ref).reshape(nt, -1), axis=1)))
    ctx.bound("closed/exact-dynamics" if rwa is None else "closed/rwa-converted-equals-lab", err, bound, where=tag,
              order=order, nref=nref, x=case["x"])
    hn = 1.0 + float(numpy.linalg.norm(H, 2))
    pur = numpy.real(numpy.einsum("kij,kji->k", data, data))
    en = numpy.real(numpy.einsum("ij,kji->k", H, data))
    ctx.bound("closed/purity-conserved", float(numpy.max(numpy.abs(pur - pur[0]))), 2 * hn * bound, where=tag)
    ctx.bound("closed/energy-conserved", float(numpy.max(numpy.abs(en - en[0]))), 2 * hn * bound, where=tag)

    # ---- state vector vs density matrix (pure state) ------------------------------------
    Afull = gens.to_complex(case["A"])
    cols = [c for c in range(Afull.shape[1]) if numpy.linalg.norm(Afull[:, c]) > 0]
    A = Afull[:, cols[0]] if cols else numpy.eye(dim)[:, 0].astype(complex)
    psi0 = A / numpy.linalg.norm(A)

    def run_sv():
        hu = case.get("ham_units")
        if hu:
            with qr.energy_units(hu):
                ham2 = qr.Hamiltonian(data=numpy.array(orc.convert(H, "int", hu)))
                if rwa is not None:
                    ham2.set_rwa([0, rwa])
        else:
            with qr.energy_units("int"):
                ham2 = qr.Hamiltonian(data=H.copy())
            if rwa is not None:
                ham2.set_rwa([0, rwa])
        sp = StateVectorPropagator(ta, ham2)
        sp.setDtRefinement(nref)
        psi_obj = qr.StateVector(data=psi0.copy())
        pe = cu(lambda: sp.propagate(psi_obj, L=order))
        dme = None
        if rwa is None:
            if case.get("reuse_psi"):
                # the caller re-uses its state-vector object for the next initial condition
                psi_obj.data[:] = numpy.roll(psi0, 1)
            dme = numpy.array(pe.get_DensityMatrixEvolution().data)
        if rwa is not None:
            # the density-matrix evolution is taken while the state vectors are still in the rotating frame and
            # converted on its own
            dmo = pe.get_DensityMatrixEvolution()
            if case.get("convert_units"):
                with qr.energy_units(case["convert_units"]):
                    pe.convert_from_RWA(ham2)
                    dmo.convert_from_RWA(ham2)
            else:
                pe.convert_from_RWA(ham2)
                dmo.convert_from_RWA(ham2)
            dme = numpy.array(dmo.data)
        pr = ReducedDensityMatrixPropagator(ta, ham2)
        rt = pr.propagate(ReducedDensityMatrix(data=numpy.outer(psi0, psi0.conj())), method="short-exp-%d" % order,
                          Nref=nref)
        if rwa is not None:
            rt.convert_from_RWA(ham2)
        with qr.eigenbasis_of(ham2):
            pe_eig = numpy.array(pe.data)
        return numpy.array(pe.data), numpy.array(rt.data), dme, pe_eig, numpy.array(pe.data)
    ok, r = guarded(ctx, "closed/statevector", run_sv, tag)
    if not ok:
        return
    psi, rho, dme, psi_eig, psi_back = r
    # the stored state vectors presented in the eigenbasis of the Hamiltonian, and back
    evh, Sh = numpy.linalg.eigh(H)
    if len(evh) < 2 or float(numpy.min(numpy.diff(evh))) > 1e-6 * max(1e-9, float(numpy.max(numpy.abs(evh)))):
        # (eigenvectors are defined up to a sign: compare populations and the energy)
        ctx.close("closed/statevector-in-eigenbasis", numpy.abs(psi_eig) ** 2, numpy.abs(psi @ Sh.conj()) ** 2, rtol=1e-9,
                  scale=1.0, where=tag)
    ctx.close("closed/statevector-in-eigenbasis", psi_back, psi, rtol=1e-10, scale=1.0, where=tag + "/back")
    if dme is not None:
        # the density-matrix evolution made from a state-vector evolution is |psi(t)><psi(t)| at every stored time
        ctx.close("closed/statevector-to-densitymatrix-evolution", dme, numpy.einsum("ki,kj->kij", psi, psi.conj()),
                  rtol=1e-12, scale=1.0, where=tag + ("/psi-object-reused" if case.get("reuse_psi") and rwa is None else ""))
    Lpsi = -1j * Hprop
    _, tau_psi = orc.truncation_profile(Lpsi, dtr, order, psi0, nsteps)
    _, tau_rho = orc.truncation_profile(L, dtr, order, numpy.outer(psi0, psi0.conj()).reshape(-1), nsteps)
    psi_ref = numpy.array([(S * numpy.exp(-1j * ev * t[k])) @ S.conj().T @ psi0 for k in range(nt)])
    ctx.bound("closed/statevector-exact", float(numpy.max(numpy.linalg.norm(psi - psi_ref, axis=1))),
              3 * tau_psi + 1e-9 + 1e-13 * float(numpy.linalg.norm(H, 2)) * dt * nt, where=tag, order=order)
    nrm = numpy.linalg.norm(psi, axis=1)
    ctx.bound("closed/norm-conserved", float(numpy.max(numpy.abs(nrm - 1.0))), 3 * tau_psi + 1e-9, where=tag)
    proj = numpy.einsum("ki,kj->kij", psi, psi.conj())
    ctx.bound("closed/statevector-vs-densitymatrix",
              float(numpy.max(numpy.linalg.norm((proj - rho).reshape(nt, -1), axis=1))),
              3 * tau_rho + (2.0 + 3 * tau_psi) * 3 * tau_psi + 3e-9, where=tag, order=order)


def _lind_ops(case, dim):
    ops = []
    for o in case["ops"]:
        if "proj" in o:
            K = numpy.zeros((dim, dim))
            K[o["proj"][0] % dim, o["proj"][1] % dim] = 1.0
        else:
            K = numpy.array(o["dense"], dtype=float)
        ops.append(K)
    return ops


def _check_lindblad(case, ctx, rho0, coh):
    import quantarhei as qr
    from quantarhei.qm import (ReducedDensityMatrixPropagator, ReducedDensityMatrix, LindbladForm,
                               SystemBathInteraction, Operator, PureDephasing)
    H = numpy.array(case["H"], dtype=float)
    dim = H.shape[0]
    ops = _lind_ops(case, dim)
    rates = [r / 1000.0 for r in case["rates"]]
    order, nref = case["order"], case["nref"]
    active = any(g > 0 and numpy.any(K - numpy.diag(numpy.diag(K)) != 0) for K, g in zip(ops, rates))
    offdiag = bool(numpy.any(H - numpy.diag(numpy.diag(H)) != 0))
    pd = case.get("pdeph")
    ctx.mark_nontrivial(coh >= 0.05 and (offdiag or pd is not None) and active)
    ctx.label("form=" + case["form"], "pdeph=" + (pd["dtype"] if pd else "none"))
    L = orc.liouvillian_lindblad(H, ops, rates)
    lrwa = case.get("rwa") if pd else None
    Om = numpy.zeros(dim)
    if lrwa is not None:
        # frame frequencies: the mean energy of each block; the expansion acts on the rotating-frame generator
        Om[:lrwa] = numpy.mean(numpy.diag(H)[:lrwa])
        Om[lrwa:] = numpy.mean(numpy.diag(H)[lrwa:])
        L = orc.liouvillian_lindblad(H - numpy.diag(Om), ops, rates)
        ctx.label("lindblad:rwa")
    norm = max(1e-6, float(numpy.linalg.norm(L, 2)))
    dtr = case["x"] / norm
    dt = dtr * nref
    nt = case["nt"]
    ta = qr.TimeAxis(0.0, nt, dt)
    tag = "lindblad/" + case["form"] + ("/pdeph-" + pd["dtype"] if pd else "") + ("/rwa" if lrwa is not None else "")
    gam = numpy.array(pd["rates"], dtype=float) / 1000.0 if pd else None
    if pd and pd["dtype"] == "Gaussian":
        gam = gam / 50.0          # rates of a Gaussian are per fs^2

    def run():
        with qr.energy_units("int"):
            ham = qr.Hamiltonian(data=H.copy())
        sbi = SystemBathInteraction([Operator(data=K.copy()) for K in ops], rates=tuple(rates))
        if lrwa is not None:
            ham.set_rwa([0, lrwa])
        lf = LindbladForm(ham, sbi, as_operators=(case["form"] != "tensor"))
        if case["form"] == "converted":
            lf.convert_2_tensor()
        if pd:
            prop = ReducedDensityMatrixPropagator(ta, ham, lf, PDeph=PureDephasing(drates=gam.copy(), dtype=pd["dtype"]))
        else:
            prop = ReducedDensityMatrixPropagator(ta, ham, lf)
        rt = cu(lambda: prop.propagate(ReducedDensityMatrix(data=rho0.copy()), method="short-exp-%d" % order, Nref=nref))
        if lrwa is not None:
            rt.convert_from_RWA(ham)
        return numpy.array(rt.data)
    cu = _caller_units(qr, case, ctx)
    ok, data = guarded(ctx, "lindblad/propagate", run, tag)
    if not ok:
        return
    if data.shape != (nt, dim, dim):
        ctx.fail("lindblad/shape", tag, got=list(data.shape))
        return
    _valid(ctx, data, tag)
    exact_r, tau = orc.truncation_profile(L, dtr, order, rho0.reshape(-1), (nt - 1) * nref)
    exact = exact_r[::nref].reshape(nt, dim, dim)
    if lrwa is not None:
        # back to the laboratory frame
        ph = numpy.exp(-1j * (Om[:, None] - Om[None, :])[None, :, :] * (numpy.arange(nt) * dt)[:, None, None])
        exact = exact * ph
    if pd:
        # commuting parts: exact solution = (GKSL solution) x (dephasing factor), element by element
        tt = (numpy.arange(nt) * dt).reshape(nt, 1, 1)
        if pd["dtype"] == "Lorentzian":
            exact = exact * numpy.exp(-gam.reshape(1, dim, dim) * tt)
        else:
            exact = exact * numpy.exp(-gam.reshape(1, dim, dim) * tt ** 2 / 2.0)
    bound = 3 * tau + 1e-9
    err = float(numpy.max(numpy.linalg.norm((data - exact).reshape(nt, -1), axis=1)))
    ctx.bound("lindblad/gksl-exponential", err, bound, where=tag, order=order, nref=nref, x=case["x"])
    if not pd:
        # (an arbitrary symmetric matrix of pure-dephasing rates is not a completely positive map, so positivity is
        #  claimed, as the property says, for the Lindblad-form generator alone)
        lmin = min(float(numpy.min(numpy.linalg.eigvalsh(0.5 * (d + d.conj().T)))) for d in data)
        ctx.bound("lindblad/positive", max(0.0, -lmin), bound, where=tag)


def _check_redfield(case, ctx, rho0, coh):
    import quantarhei as qr
    from quantarhei.qm import ReducedDensityMatrixPropagator, ReducedDensityMatrix, PureDephasing
    spec = case["spec"]
    n = len(spec["E"])
    ctx.mark_nontrivial(coh >= 0.05)
    ctx.label("td" if case["td"] else "static", "ops" if case["as_ops"] else "tensor",
              "pdeph=" + (case["pdeph"]["dtype"] if case["pdeph"] else "none"))
    tag = "redfield/%s/%s" % ("td" if case["td"] else "static", "ops" if case["as_ops"] else "tensor")

    def run():
        agg = gens.make_aggregate(qr, spec, build=False)
        if case["pdeph"] and case["pdeph"].get("source") == "aggregate":
            with qr.energy_units("1/cm"):
                for i, m in enumerate(agg.monomers):
                    m.set_transition_dephasing((0, 1), 1.0 / (60.0 + 25.0 * i))
                    m.set_transition_width((0, 1), 40.0 + 30.0 * i)
        agg.build()
        t0, nt, dt = spec["time"]
        ta = qr.TimeAxis(t0, int(nt), dt)
        RT, ham = agg.get_RelaxationTensor(ta, relaxation_theory="standard_Redfield", time_dependent=case["td"],
                                           secular_relaxation=case["secular"], as_operators=case["as_ops"])
        kw = {}
        if case["pdeph"] and case["pdeph"].get("source") == "aggregate":
            pdo = agg.get_PureDephasing(dtype=case["pdeph"]["dtype"])
            rates_m = numpy.array(pdo.data, dtype=float)
            ctx.close("redfield/aggregate-dephasing-rates-symmetric", rates_m, rates_m.T, rtol=1e-12,
                      scale=max(1e-300, float(numpy.max(numpy.abs(rates_m)))), where=tag)
            ctx.bound("redfield/aggregate-dephasing-rates-zero-diagonal", float(numpy.max(numpy.abs(numpy.diag(rates_m)))),
                      1e-15 + 1e-12 * float(numpy.max(numpy.abs(rates_m))), where=tag)
            ctx.label("pdeph-from-aggregate")
            kw["PDeph"] = pdo
        elif case["pdeph"]:
            kw["PDeph"] = PureDephasing(drates=numpy.array(case["pdeph"]["rates"], dtype=float) / 1000.0,
                                        dtype=case["pdeph"]["dtype"])
        nref = case["nref"]
        if case["td"] and nref > 1:
            # documented: the refined step of the propagation must be a step of the tensor's own axis
            tp = qr.TimeAxis(t0, (int(nt) - 1) // nref + 1, dt * nref)
        else:
            tp = ta
        prop = ReducedDensityMatrixPropagator(tp, ham, RT, **kw)
        rt = cu(lambda: prop.propagate(ReducedDensityMatrix(data=rho0.copy()), method="short-exp-%d" % case["order"],
                                       Nref=nref))
        return numpy.array(rt.data)
    cu = _caller_units(qr, case, ctx)
    ok, data = guarded(ctx, "redfield/propagate", run, tag)
    if not ok:
        return
    if not numpy.all(numpy.isfinite(data)):
        ctx.fail("valid/finite", tag)
        return
    _valid(ctx, data, tag)
