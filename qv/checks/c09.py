"""C09  Bath correlation functions add linearly and carry consistent parameters.

A case is an addition *history*: component parameter sets plus a generated
expression tree (any grouping, in-place additions, self addition).  Oracle:
each component built alone; expected data = sum of component data, expected
reorganisation energy = sum of the declared ones.
"""
import math

import numpy
from hypothesis import strategies as st

from .. import oracles as orc
from ..core import guarded

ID = "C09"
TECHNIQUE = ("Hypothesis-generated addition histories (expression trees, in-place steps, self addition, unit contexts) "
             "of correlation functions / spectral densities against the sum of separately built components")
LEVEL = ("(The reorganisation energy measured from the data of a sum must equal the sum of the measured values of its components, whether or not operands were measured before they were added.) 1-4 analytically parameterised components (correlation functions: overdamped Brownian, its high-temperature "
         "form, underdamped Brownian; spectral densities: overdamped Brownian, underdamped Brownian, Underdamped) are "
         "combined by a generated expression tree with + and +=, optionally with a value-defined function as the last "
         "right-hand operand; data and reorganisation energy of the result must equal the sums over the components "
         "(1e-9 relative), read back in a generated unit; components at different temperatures must be refused. For "
         "single analytic functions the reorganisation energy measured from the data equals the declared one within "
         "an explicit quadrature model, and the even/odd Fourier parts are even/odd under reflection about zero."
         " Later additions: correlation-function matrices; damping-rate parametrisation and closed form of overdamped densities; energy recovered from derived functions; sums of Fourier parts; refused in-place addition leaves the left operand unchanged.")
NOTE = ("B777/CP29 correlation functions reference a non-existent attribute and cannot be constructed at all on this "
        "tree; they are not generated (unconstructible, not passing). Temperature refusal is asserted for correlation "
        "functions (spectral densities carry no mandatory temperature). <= 4 components, <= 300 time points.")
RULE = ("case = family cf|sd, 1..4 component parameter sets (type, lambda 5..150 cm^-1, tau_c 20..200 fs / frequency, "
        "damping), an expression tree over component indices with nodes add|iadd, construction unit, read unit, "
        "optional value-defined tail, optional temperature mismatch. Non-trivial: >= 3 components of >= 2 types where a "
        "composite is the left operand of a later addition.")
ASSUMPTIONS = [
    "reorganisation energy measured from the data: tolerance = 2*dt/(pi*tau_c) relative (tail of J(w)/w beyond the "
    "frequency window) + exp(-T_max/tau_c) (truncation of C(t)) + 1 %; only overdamped types",
]
BUDGET = {"quick": (1200, 80), "thorough": (3000, 700)}

CF_TYPES = ["OverdampedBrownian", "OverdampedBrownian-HighTemperature", "UnderdampedBrownian"]
SD_TYPES = ["OverdampedBrownian", "UnderdampedBrownian", "Underdamped"]
UNITS = ["1/cm", "int", "eV", "THz", "meV"]


def _tree(n):
    """expression trees over leaves 0..n-1 that use every leaf exactly once (shape generated, order fixed)"""
    if n == 1:
        return st.just(0)

    @st.composite
    def build(draw, lo, hi):
        if hi - lo == 1:
            return lo
        k = draw(st.integers(lo + 1, hi - 1))
        return {"op": draw(st.sampled_from(["add", "add", "iadd"])), "l": draw(build(lo, k)), "r": draw(build(k, hi))}
    return build(0, n)


@st.composite
def _case(draw):
    fam = draw(st.sampled_from(["cf", "cf", "sd"]))
    n = draw(st.integers(1, 4) | st.integers(3, 4))
    types = CF_TYPES if fam == "cf" else SD_TYPES
    comps = []
    for _ in range(n):
        comps.append({"ftype": draw(st.sampled_from(types)), "reorg": draw(st.integers(5, 150)),
                      "cortime": draw(st.integers(20, 200)), "freq": draw(st.integers(100, 900)),
                      "gamma": draw(st.integers(10, 80)), "matsubara": draw(st.integers(5, 40)),
                      # (overdamped spectral densities) the damping rate given instead of the correlation time
                      "by_gamma": draw(st.sampled_from([False, False, True]))})
    return {"family": fam, "comps": comps, "tree": draw(_tree(n)), "T": draw(st.integers(77, 350)),
            "nt": draw(st.integers(100, 300)), "dt": draw(st.sampled_from([1.0, 2.0])),
            "u_make": draw(st.sampled_from(UNITS)), "u_read": draw(st.sampled_from(UNITS)),
            "self_add": draw(st.sampled_from([False, False, False, True])),
            # the additions themselves may be evaluated inside a units context
            "u_add": draw(st.sampled_from([None, None, "1/cm", "THz", "eV"])),
            "value_tail": draw(st.booleans()) if fam == "cf" else False,
            "measure_leaves": draw(st.booleans()),
            # the functions are handed to a correlation-function matrix (the bath of a two-site system), possibly while
            # other energy units are current
            "u_matrix": draw(st.sampled_from(["none", None, "1/cm", "eV", "THz"])),
            "t_mismatch": draw(st.sampled_from([None, None, None, 0, 1])) if fam == "cf" and n >= 2 else None}


def strategy(tier):
    return _case()


def _params(c, T, unit, sd=False):
    """parameter dictionary with energies expressed in `unit`"""
    cv = lambda x: float(orc.convert(x, "1/cm", unit))
    ft = c["ftype"]
    if ft in ("OverdampedBrownian", "OverdampedBrownian-HighTemperature"):
        p = dict(ftype=ft, reorg=cv(c["reorg"]), cortime=float(c["cortime"]), T=float(T))
        if sd and c.get("by_gamma") and ft == "OverdampedBrownian":
            # the rate 1/cortime is an energy-like quantity: given in the current units
            del p["cortime"]
            p["gamma"] = float(orc.from_internal(1.0 / float(c["cortime"]), unit))
        if ft == "OverdampedBrownian":
            p["matsubara"] = int(c["matsubara"])
        return p
    # underdamped types: frequency and damping are energies
    return dict(ftype=ft, reorg=cv(c["reorg"]), freq=cv(c["freq"]), gamma=cv(c["gamma"]), T=float(T))


def check_case(case, ctx):
    import quantarhei as qr
    fam, comps, T = case["family"], case["comps"], case["T"]
    n = len(comps)
    cls = qr.CorrelationFunction if fam == "cf" else qr.SpectralDensity
    ta = qr.TimeAxis(0.0, case["nt"], case["dt"])
    u = case["u_make"]
    types = sorted(set(c["ftype"] for c in comps))
    ctx.label(fam, "n=%d" % n, "u=" + u)
    state = {"composite_left": False}

    def make(i, Ti=None):
        with qr.energy_units(u):
            return cls(ta, _params(comps[i], T if Ti is None else Ti, u, sd=(fam == "sd")))

    # ---- components alone: reference data ---------------------------------------------------------
    ok, singles = guarded(ctx, "construct", lambda: [make(i) for i in range(n)], fam)
    if not ok:
        return
    ref_data = [numpy.array(s.data) for s in singles]
    lam_int = [c["reorg"] * orc.CM2INT for c in comps]
    for i, s in enumerate(singles):
        ctx.close("declared-reorganisation-energy", s.lamb, lam_int[i], rtol=1e-7, where=fam + "/" + comps[i]["ftype"],
                  unit=u)

    if fam == "sd":
        # analytically defined overdamped densities: the closed form on the object's own axis, whatever the units and
        # the parametrisation (correlation time or damping rate) at construction
        for i, sgl in enumerate(singles):
            if comps[i]["ftype"] == "OverdampedBrownian":
                with qr.energy_units("int"):
                    wax = numpy.array(sgl.axis.data)
                want_j = orc.ob_spectral_density(wax, lam_int[i], float(comps[i]["cortime"]))
                ctx.close("spectral-density/closed-form", ref_data[i], want_j, rtol=1e-9,
                          scale=max(1e-300, float(numpy.max(numpy.abs(want_j)))),
                          where="by-gamma" if comps[i].get("by_gamma") else "by-cortime", unit=u)

    # ---- temperature mismatch must be refused --------------------------------------------------------
    if case["t_mismatch"] is not None:
        i = case["t_mismatch"] % n
        j = (i + 1) % n
        a, b = make(i), make(j, Ti=T + 25)
        try:
            a + b
            ctx.fail("temperature-mismatch-accepted", fam + "/add")
        except Exception:
            ctx.label("temperature-mismatch-refused")
        try:
            a += b
            ctx.fail("temperature-mismatch-accepted", fam + "/iadd")
        except Exception:
            # a refused addition leaves the left operand as it was
            ctx.close("temperature-mismatch-refused/left-operand-unchanged", numpy.array(a.data), ref_data[i], rtol=1e-12,
                      scale=max(1e-300, float(numpy.max(numpy.abs(ref_data[i])))), where=fam + "/iadd/data")
            ctx.close("temperature-mismatch-refused/left-operand-unchanged", a.lamb, lam_int[i], rtol=1e-7,
                      where=fam + "/iadd/reorganisation-energy")

    # ---- the addition history -----------------------------------------------------------------------------
    def ev(node):
        """returns (object, set of leaf indices, is_composite)"""
        if isinstance(node, int):
            leaf = make(node)
            if case.get("measure_leaves"):
                # the component has been looked at before it enters a sum
                leaf.measure_reorganization_energy()
            return leaf, [node], False
        lo, li, lc = ev(node["l"])
        ro, ri, rc = ev(node["r"])
        if lc:
            state["composite_left"] = True
        if node["op"] == "add":
            return lo + ro, li + ri, True
        lo += ro
        return lo, li + ri, True
    def evaluate():
        if case.get("u_add"):
            with qr.energy_units(case["u_add"]):
                return ev(case["tree"])
        return ev(case["tree"])
    ctx.label("add-in-context" if case.get("u_add") else "add-outside")
    ok, r = guarded(ctx, "addition", evaluate, fam, types=types)
    if not ok:
        return
    total, leaves, _ = r
    want = numpy.zeros_like(ref_data[0])
    wlam = 0.0
    for i in leaves:
        want = want + ref_data[i]
        wlam += lam_int[i]
    if case["self_add"]:
        # doubling through in-place self addition
        # (under the same units context as the rest of the history: the copy made of the right operand must not
        # re-read the stored parameters in the current units)
        def selfadd():
            if case.get("u_add"):
                with qr.energy_units(case["u_add"]):
                    return total.__iadd__(total)
            return total.__iadd__(total)
        ok, _ = guarded(ctx, "addition", selfadd, fam + "/self")
        if not ok:
            return
        want = 2 * want
        wlam = 2 * wlam
        ctx.label("self-add")
    if case["value_tail"]:
        vals = numpy.exp(-numpy.array(ta.data) / 50.0) * (1.0 - 0.5j) * 1e-5
        with qr.energy_units("int"):
            v = qr.CorrelationFunction(ta, dict(ftype="Value-defined", reorg=0.0005, T=float(T)), values=vals.copy())
        ok, total = guarded(ctx, "addition", lambda: total + v, fam + "/value-defined-right-operand")
        if not ok:
            return
        want = want + vals
        wlam += 0.0005
        ctx.label("value-tail")
    ctx.mark_nontrivial(n >= 3 and len(types) >= 2 and state["composite_left"])
    if not case["value_tail"]:
        # the reorganisation energy recovered from the data is a linear functional of the data (spline integral): for
        # the sum it equals the sum over the components, whether or not operands were measured before they were added
        def measured():
            return float(total.measure_reorganization_energy()), [float(x.measure_reorganization_energy()) for x in singles]
        ok, mm = guarded(ctx, "measure", measured, fam + "/sum")
        if ok:
            wm = sum(mm[1][i] for i in leaves) * (2 if case["self_add"] else 1)
            ctx.close("measured-reorganisation-energy/additive", mm[0], wm, rtol=1e-6, atol=1e-12,
                      where=fam + ("/leaves-measured-before" if case.get("measure_leaves") else ""), n=n)
    where = fam + "/" + "+".join(types) + ("/in-context" if case.get("u_add") else "")
    sc = max(1e-30, float(numpy.max(numpy.abs(want))))
    ctx.close("sum-data", numpy.array(total.data), want, rtol=1e-9, scale=sc, where=where, n=n)
    ctx.close("sum-reorganisation-energy", total.lamb, wlam, rtol=1e-7, where=where, n=n)
    with qr.energy_units(case["u_read"]):
        got = total.get_reorganization_energy()
    ctx.close("sum-reorganisation-energy/read-in-units", got, float(orc.from_internal(wlam, case["u_read"])), rtol=1e-7,
              where=where, unit=case["u_read"])

    # ---- the matrix of correlation functions of a system carries the same parameters and values -----------------------
    if fam == "cf" and case.get("u_matrix", "none") != "none":
        from quantarhei.qm.corfunctions import CorrelationFunctionMatrix
        um = case["u_matrix"]

        def into_matrix():
            def reg():
                cm = CorrelationFunctionMatrix(ta, 2)
                cm.set_correlation_function(total, [(0, 0)])
                cm.set_correlation_function(singles[0], [(1, 1)])
                return cm
            if um:
                with qr.energy_units(um):
                    cm = reg()
            else:
                cm = reg()
            with qr.energy_units("int"):
                lams = [float(cm.get_reorganization_energy(0, 0)), float(cm.get_reorganization_energy(1, 1))]
            with qr.energy_units(case["u_read"]):
                lam_u = float(cm.get_reorganization_energy(0, 0))
            return lams, lam_u, numpy.array(cm.get_coft(0, 0)), numpy.array(cm.get_coft(1, 1)), float(cm.get_temperature())
        ok, r = guarded(ctx, "matrix", into_matrix, where)
        if ok:
            wh = where + ("/registered-in-" + um if um else "")
            ctx.label("matrix:" + (um or "no-context"))
            ctx.close("matrix/reorganisation-energy", r[0][0], wlam, rtol=1e-7, where=wh + "/sum")
            ctx.close("matrix/reorganisation-energy", r[0][1], lam_int[0], rtol=1e-7, where=wh + "/single")
            ctx.close("matrix/reorganisation-energy/read-in-units", r[1], float(orc.from_internal(wlam, case["u_read"])),
                      rtol=1e-7, where=wh, unit=case["u_read"])
            ctx.close("matrix/values", r[2], want, rtol=1e-9, scale=sc, where=wh + "/sum")
            ctx.close("matrix/values", r[3], ref_data[0], rtol=1e-9, scale=max(1e-30, float(numpy.max(numpy.abs(ref_data[0])))),
                      where=wh + "/single")
            ctx.close("matrix/temperature", r[4], float(T), rtol=1e-12, where=wh)

    # ---- a sum of spectral densities converted to a correlation function carries the summed parameters --------------
    if fam == "sd" and not case["self_add"] and all(c["ftype"] == "OverdampedBrownian" for c in comps):
        def to_cf():
            cf = total.get_CorrelationFunction(temperature=float(T))
            return float(cf.lamb), len(cf.params), float(cf.measure_reorganization_energy())
        ok, r = guarded(ctx, "sd-to-cf", to_cf, where)
        if ok:
            ctx.close("sd-to-cf/reorganisation-energy", r[0], wlam, rtol=1e-7, where=where, n=len(leaves))
            if r[1] != len(leaves):
                ctx.fail("sd-to-cf/number-of-components", where, got=r[1], want=len(leaves))
            ctx.label("sd-to-cf:n=%d" % min(len(leaves), 3))
            # ... and the energy recovered from its values is the summed one, as far as the time axis resolves it
            tmax = case["nt"] * case["dt"]
            tcs = [float(comps[i]["cortime"]) for i in leaves]
            # (the function comes from a numerical Fourier transform on this axis: twice the truncation and step terms
            # of the analytic case, measured on the unchanged tree)
            model_cf = 2.0 * math.exp(-tmax / max(tcs)) + 4.0 * case["dt"] / (math.pi * min(tcs)) + 0.03
            if model_cf <= 0.25:
                ctx.bound("sd-to-cf/measured-reorganisation-energy", abs(r[2] / wlam - 1.0), model_cf, where=where,
                          n=len(leaves))

    # ---- single analytic functions ------------------------------------------------------------------------------
    c0 = comps[0]
    if c0["ftype"].startswith("OverdampedBrownian"):
        s0 = singles[0]
        tmax = case["nt"] * case["dt"]
        model = 2.0 * case["dt"] / (math.pi * c0["cortime"]) + math.exp(-tmax / c0["cortime"]) + 0.01
        if fam == "sd":
            with qr.energy_units("int"):
                wax = numpy.array(s0.axis.data)
            if numpy.any(wax == 0.0):
                # the frequency axis contains zero exactly: J(w)/w is 0/0 there and has to be interpolated from the
                # neighbours, which costs (x/pi) x^2/(1+x^2) of the integral, x = dw*tau_c, for a Lorentzian peak
                x = abs(wax[1] - wax[0]) * c0["cortime"]
                model += (x / math.pi) * x * x / (1.0 + x * x)
                ctx.label("sd-axis-contains-zero")
        if model <= 0.2:
            ok, meas = guarded(ctx, "measure", lambda: s0.measure_reorganization_energy(), fam)
            if ok:
                ctx.bound("measured-reorganisation-energy", abs(float(meas) / lam_int[0] - 1.0), model,
                          where=fam + "/" + c0["ftype"])
        if fam == "cf":
            def parts():
                return (numpy.array(singles[0].get_EvenFTCorrelationFunction().data),
                        numpy.array(singles[0].get_OddFTCorrelationFunction().data))
            ok, eo = guarded(ctx, "fourier-parts", parts, fam)
            if ok:
                even, odd = eo
                N = len(even)
                # the frequency axis has 2*nt points with zero frequency at index nt: w[nt+k] = -w[nt-k]
                k = numpy.arange(1, N // 2)
                sce = max(1e-30, float(numpy.max(numpy.abs(even))))
                sco = max(1e-30, float(numpy.max(numpy.abs(odd))))
                ctx.close("even-part-is-even", even[N // 2 + k], even[N // 2 - k], rtol=1e-9, scale=sce)
                if n >= 2:
                    # sums of Fourier parts: the left operand is used in two sums; both are right and it is unchanged
                    def part_sums():
                        fa = singles[0].get_EvenFTCorrelationFunction()
                        fb = singles[1].get_EvenFTCorrelationFunction()
                        fc = singles[n - 1].get_OddFTCorrelationFunction() if False else singles[n - 1].get_EvenFTCorrelationFunction()
                        a0, b0, c0 = numpy.array(fa.data), numpy.array(fb.data), numpy.array(fc.data)
                        s1 = fa + fb
                        s2 = fa + fc
                        return a0, b0, c0, numpy.array(s1.data), numpy.array(s2.data), numpy.array(fa.data)
                    okp, ps = guarded(ctx, "fourier-parts/addition", part_sums, fam)
                    if okp:
                        a0, b0, c0, s1, s2, a1 = ps
                        scp = max(1e-30, float(numpy.max(numpy.abs(a0))), float(numpy.max(numpy.abs(b0))))
                        ctx.close("fourier-parts/sum", s1, a0 + b0, rtol=1e-12, scale=scp, where="first-sum")
                        ctx.close("fourier-parts/sum", s2, a0 + c0, rtol=1e-12, scale=scp, where="second-sum-with-the-same-left-operand")
                        ctx.close("fourier-parts/operand-unchanged", a1, a0, rtol=1e-12, scale=scp)
                ctx.close("odd-part-is-odd", odd[N // 2 + k], -odd[N // 2 - k], rtol=1e-9, scale=sco)
