"""C12  Third-order response: exact orientational average, additivity, symmetry.

Oracles: (i) the orientational prefactor of every pathway against an SO(3)
product quadrature that is exact for degree-4 polynomials in the rotation
matrix (5 x 5 uniform points in the two azimuthal Euler angles, 3-point
Gauss-Legendre in cos(beta)); (ii) metamorphic relations of the calculated
response (rotation of dipoles / of polarisations, dipole scaling, total =
rephasing + non-rephasing); (iii) additivity for uncoupled molecules.
"""
import math

import numpy
from hypothesis import strategies as st

from .. import oracles as orc
from .. import gens
from ..core import guarded, HarnessError

ID = "C12"
TECHNIQUE = ("Hypothesis-generated polarisations, dipoles, dimers/trimers with two-exciton states against an exact SO(3) "
             "quadrature for the pathway prefactors, metamorphic relations of the 2D response and additivity for J = 0")
LEVEL = ("(The three parts of the response are read in a generated order, possibly repeatedly: reading must not change them.) For generated dimers and trimers built with two-exciton states (couplings incl. 0, per-molecule widths, "
         "Gaussian and Lorentzian line shapes, waiting times on the grid of a zero-rate evolution superoperator) and "
         "generated polarisation four-tuples: the prefactor of every Liouville pathway returned by the library equals "
         "sign x <prod_k e_k.(R d_k)>_SO(3) x rho0 x evolution factor with the average from an exact quadrature "
         "(1e-10 relative); the rephasing, non-rephasing and total responses are invariant under a common rotation of "
         "all dipoles and of all polarisations, scale with the fourth power of a common dipole factor, total = REPH + "
         "NONR; for J = 0 the response equals the sum of the responses of one-molecule aggregates on the same axes "
         "(1e-9 of the peak). Any exception from pathway construction is a violation."
         " Later additions: polarisations set through LabField objects; equal transition energies with different widths; field vectors of general length; aggregate asked for excited states before the response. Round five: integer polarisation lists; dipole factors of 3e-4; reads through containers (integer and axis indexing); response calculated in units.")
NOTE = ("Only the mock (analytic line-shape) calculator is reachable offline; TwoDResponseCalculator needs the external "
        "aceto library. 2-3 molecules, 30-point frequency axes, waiting times 0..50 fs. Per-molecule widths (Gaussian) are generated; "
        "Lorentzian shapes use a common dephasing time except in a flagged subset (open known finding: dephasing of "
        "two-exciton states is not implemented).")
RULE = ("case = kind prefactor|symmetry|additivity + molecules (energies, half-integer dipoles, widths) + couplings + "
        "polarisation vectors (axes or generic integer vectors) + rotation quaternion + scale + t2 index + shape. "
        "Non-trivial: >= 2 molecules with two-exciton states, >= 1 ESA pathway, non-collinear dipoles and non-parallel "
        "polarisations.")
ASSUMPTIONS = [
    "pathway sign: ground-state-bleach / stimulated-emission types positive, excited-state-absorption types negative",
    "the quadrature is verified in-process against <(e.Rd)^4> = 1/5 and <(e1.Rd)^2 (e2.Rd)^2> = 1/15 before use",
]
BUDGET = {"quick": (600, 85), "thorough": (2000, 800)}

AXES = [[1.0, 0.0, 0.0], [0.0, 1.0, 0.0], [0.0, 0.0, 1.0]]


# ---------------------------------------------------------------------------
# exact SO(3) quadrature for degree-4 integrands
# ---------------------------------------------------------------------------

def _rotations():
    xs, ws = numpy.polynomial.legendre.leggauss(3)
    out = []
    for i in range(5):
        al = 2 * math.pi * i / 5
        Ra = numpy.array([[math.cos(al), -math.sin(al), 0], [math.sin(al), math.cos(al), 0], [0, 0, 1]])
        for x, w in zip(xs, ws):
            be = math.acos(x)
            Rb = numpy.array([[math.cos(be), 0, math.sin(be)], [0, 1, 0], [-math.sin(be), 0, math.cos(be)]])
            for k in range(5):
                ga = 2 * math.pi * k / 5
                Rg = numpy.array([[math.cos(ga), -math.sin(ga), 0], [math.sin(ga), math.cos(ga), 0], [0, 0, 1]])
                out.append((Ra @ Rb @ Rg, w / 2.0 / 25.0))
    return out


_ROT = _rotations()


def orient_average(e, d):
    """< prod_k e_k . (R d_k) > over SO(3), e and d are 4x3 arrays"""
    tot = 0.0
    for R, w in _ROT:
        p = 1.0
        for k in range(4):
            p *= float(numpy.dot(e[k], R @ d[k]))
        tot += w * p
    return tot


def _selftest():
    x, y = numpy.array(AXES[0]), numpy.array(AXES[1])
    v = numpy.array([0.3, -0.5, 0.81]); v = v / numpy.linalg.norm(v)
    a = orient_average([x, x, x, x], [v, v, v, v])
    b = orient_average([x, x, y, y], [v, v, v, v])
    if abs(a - 0.2) > 1e-13 or abs(b - 1.0 / 15.0) > 1e-13 or abs(sum(w for _, w in _ROT) - 1.0) > 1e-13:
        raise HarnessError("SO(3) quadrature self-test failed: %r %r" % (a, b))


_selftest()


# ---------------------------------------------------------------------------

@st.composite
def _case(draw):
    n = draw(st.sampled_from([2, 2, 3]))
    comp = st.integers(-4, 4).map(lambda k: k / 2.0)
    mols = []
    for i in range(n):
        d = [draw(comp), draw(comp), draw(comp)]
        if all(x == 0 for x in d):
            d[i % 3] = 1.0
        mols.append({"E": draw(st.integers(11800, 12400)), "d": d, "w": draw(st.integers(80, 250)),
                     "deph": draw(st.integers(50, 200))})
    kind = draw(st.sampled_from(["prefactor", "symmetry", "additivity"]))
    if draw(st.sampled_from([False, False, True])):
        # two molecules with exactly the same transition energy (their widths and dephasing times differ)
        mols[1]["E"] = mols[0]["E"]
        if mols[1]["w"] == mols[0]["w"]:
            mols[1]["w"] = mols[0]["w"] + 35
    J = [[0] * n for _ in range(n)]
    if kind != "additivity":
        for i in range(n):
            for j in range(i + 1, n):
                J[i][j] = J[j][i] = draw(st.sampled_from([0, 1, 1])) * draw(st.integers(-200, 200))
    vec = st.one_of(st.sampled_from(AXES), st.tuples(st.integers(-2, 2), st.integers(-2, 2), st.integers(-2, 2)).map(list))
    pols = []
    for _ in range(4):
        v = [float(x) for x in draw(vec)]
        if all(x == 0 for x in v):
            v = [1.0, 0.0, 0.0]
        nv = math.sqrt(sum(x * x for x in v))
        pols.append([x / nv for x in v])
    if draw(st.sampled_from([False, False, True])):
        # field vectors of general length (the prefactor is linear in each of them)
        k = draw(st.integers(0, 3))
        f = draw(st.sampled_from([2.0, 0.5, 1.5]))
        pols[k] = [x * f for x in pols[k]]
        k2 = draw(st.integers(0, 3))
        pols[k2] = [x * 1.25 for x in pols[k2]]
    q = draw(st.tuples(st.integers(-3, 3), st.integers(-3, 3), st.integers(-3, 3), st.integers(-3, 3)))
    if all(x == 0 for x in q):
        q = (1, 1, 0, 0)
    return {"kind": kind, "mols": mols, "J": J, "pols": pols, "quat": list(q), "scale": draw(st.sampled_from([0.5, 2.0, 1.5, 0.01, 0.003, 3e-4])),
            "t2i": draw(st.integers(0, 5)), "shape": draw(st.sampled_from(["Gaussian", "Gaussian", "Lorentzian"])),
            # Lorentzian shapes: a common dephasing time unless this flag is set
            "deph_distinct": draw(st.sampled_from([False, False, False, True])),
            # order in which the parts of the response are read (reading must not change anything)
            "read_order": draw(st.lists(st.sampled_from(["R", "N", "T"]), min_size=0, max_size=5)),
            # earlier settings of the same LabSetup object: "detection" = the same three pulse polarisations with
            # another detection polarisation, "all" = four other polarisations; and a second polarisation tuple with
            # which existing pathway objects are averaged again on the re-set lab object
            "lab_history": draw(st.sampled_from([None, None, "detection", "all", "fields", "fields-prop"])),
            # the aggregate object was asked for an excited initial state before the response is calculated
            "agg_history": draw(st.sampled_from([None, None, "impulsive_excitation", "thermal_excited_state"])),
            # the response is calculated while other energy units are current for the caller
            "calc_units": draw(st.sampled_from([None, None, None, "1/cm", "eV"])),
            "reaverage": draw(st.booleans())}


def strategy(tier):
    return _case()


def rotation(q):
    a, b, c, d = [float(x) for x in q]
    nrm = a * a + b * b + c * c + d * d
    return numpy.array([[a * a + b * b - c * c - d * d, 2 * (b * c - a * d), 2 * (b * d + a * c)],
                        [2 * (b * c + a * d), a * a - b * b + c * c - d * d, 2 * (c * d - a * b)],
                        [2 * (b * d - a * c), 2 * (c * d + a * b), a * a - b * b - c * c + d * d]]) / nrm


class ReadChanged(HarnessError):
    """a part of the response read a second time differs from the first read"""
    def __init__(self, part, dev, order):
        HarnessError.__init__(self, part)
        self.part, self.dev, self.order = part, dev, order


def response(qr, mols, J, pols, t2i, shape, mult=2, want_pathways=False, deph_common=None, read_order=None,
             lab_history=None, want_lab=False, lab_route=None, agg_history=None, calc_units=None, cont_out=None):
    """(REPH, NONR, TOTAL [, pathways, aggregate]) of the mock calculator for the given system"""
    from quantarhei.spectroscopy.mocktwodcalculator import MockTwoDResponseCalculator
    n = len(mols)
    objs = []
    with qr.energy_units("1/cm"):
        for m in mols:
            mol = qr.Molecule([0.0, float(m["E"])])
            mol.set_dipole(0, 1, list(m["d"]))
            mol.set_transition_width((0, 1), float(m["w"]))
            mol.set_transition_dephasing((0, 1), 1.0 / float(deph_common or m.get("deph", 100)))
            objs.append(mol)
        agg = qr.Aggregate(molecules=objs)
        for i in range(n):
            for j in range(i + 1, n):
                if J[i][j]:
                    agg.set_resonance_coupling(i, j, float(J[i][j]))
    agg1 = agg.deepcopy()
    agg1.build(mult=1)
    agg.build(mult=mult if n > 1 else 1)
    ham = agg1.get_Hamiltonian()
    t2axis = qr.TimeAxis(0.0, 6, 10.0)
    K = qr.qm.ProjectionOperator(1, 1, dim=ham.dim)
    sbi = qr.qm.SystemBathInteraction(sys_operators=[K], rates=[0.0])
    LL = qr.qm.LindbladForm(ham, sbi)
    eUt = qr.EvolutionSuperOperator(time=t2axis, ham=ham, relt=LL)
    eUt.set_dense_dt(10)
    eUt.calculate(show_progress=False)
    t1axis = qr.TimeAxis(0.0, 30, 10.0)
    t3axis = qr.TimeAxis(0.0, 30, 10.0)
    calc = MockTwoDResponseCalculator(t1axis, t2axis, t3axis)
    with qr.energy_units("1/cm"):
        calc.bootstrap(rwa=12100.0, shape=shape)
    agg.diagonalize()
    if agg_history:
        # (the usual way to get an initial condition for a propagation of the same system)
        agg.get_DensityMatrix(condition_type=agg_history, temperature=300.0)
    lab = qr.LabSetup()
    for hp in (lab_history or []):
        # the laboratory set-up object had other polarisations before (e.g. an analyser scan)
        lab.set_pulse_polarizations(pulse_polarizations=(hp[0], hp[1], hp[2]), detection_polarization=hp[3])
    if lab_route in ("fields", "fields-prop"):
        # the pulse polarisations are changed one by one through the pulses' LabField objects
        for k in range(3):
            if lab_route == "fields":
                lab.get_labfield(k).set_polarization(numpy.array(pols[k], dtype=float))
            else:
                lab.get_labfield(k).pol = numpy.array(pols[k], dtype=float)
    else:
        lab.set_pulse_polarizations(pulse_polarizations=(pols[0], pols[1], pols[2]), detection_polarization=pols[3])
    pw = {}
    t2 = float(t2axis.data[t2i])
    if calc_units:
        with qr.energy_units(calc_units):
            resp = calc.calculate_one_system(t2, agg, eUt, lab, pways=pw)
    else:
        resp = calc.calculate_one_system(t2, agg, eUt, lab, pways=pw)
    flags = {"R": qr.signal_REPH, "N": qr.signal_NONR, "T": qr.signal_TOTL}
    order = list(read_order or []) + ["R", "N", "T"]
    reads = {"R": [], "N": [], "T": []}
    for k in order:
        resp.set_data_flag(flags[k])
        reads[k].append(numpy.array(resp.d__data, copy=True))
    for k in reads:
        for later in reads[k][1:]:
            if not numpy.array_equal(later, reads[k][0]):
                raise ReadChanged(k, float(numpy.max(numpy.abs(later - reads[k][0]))), order)
    out = [reads["R"][0], reads["N"][0], reads["T"][0]]
    # the same response read through containers (indexed by the waiting-time axis and by integers) with the part
    # selected for the whole container
    from quantarhei.spectroscopy.twodcontainer import TwoDResponseContainer
    for how in (("integer", "axis") if cont_out is not None else ()):
        if how == "integer":
            cont = TwoDResponseContainer()
            cont.use_indexing_type("integer")
            cont.set_spectrum(resp, tag=0)
            key = 0
        else:
            cont = TwoDResponseContainer(t2axis=t2axis)
            cont.use_indexing_type(t2axis)
            cont.set_spectrum(resp, tag=t2)
            key = t2
        for k in ("R", "N", "T"):
            cont.set_data_flag(flags[k])
            got = numpy.array(cont.get_spectrum(key).d__data, copy=True)
            cont_out[(how, k)] = float(numpy.max(numpy.abs(got - reads[k][0])))
    if want_pathways and want_lab:
        return out[0], out[1], out[2], pw[str(t2)], agg, lab
    if want_pathways:
        return out[0], out[1], out[2], pw[str(t2)], agg
    return out[0], out[1], out[2]


def check_case(case, ctx):
    import quantarhei as qr
    mols, J, pols = case["mols"], case["J"], [numpy.array(p) for p in case["pols"]]
    n = len(mols)
    kind, shape, t2i = case["kind"], case["shape"], case["t2i"]
    distinct = bool(case.get("deph_distinct")) and shape == "Lorentzian"
    dc = None if distinct else mols[0].get("deph", 100)
    d = numpy.array([m["d"] for m in mols])
    noncol = any(numpy.linalg.norm(numpy.cross(d[0], d[i])) > 1e-9 for i in range(1, n))
    nonpar = any(numpy.linalg.norm(numpy.cross(pols[0], pols[i])) > 1e-9 for i in range(1, 4))
    ctx.label(kind, "N=%d" % n, shape, "t2=%d" % t2i, "nonparallel-pols" if nonpar else "parallel-pols")
    tag = kind + "/" + shape + ("/distinct-dephasing" if distinct else "")

    hist = None
    if case.get("lab_history") == "detection":
        alt = numpy.cross(pols[3], [0.3, 0.5, 0.81])
        alt = alt / numpy.linalg.norm(alt) if numpy.linalg.norm(alt) > 1e-9 else numpy.array([0.0, 1.0, 0.0])
        hist = [[pols[0], pols[1], pols[2], alt]]
    elif case.get("lab_history") == "all":
        hist = [[pols[1], pols[2], pols[3], pols[0]], [pols[3], pols[0], pols[1], pols[2]]]
    elif case.get("lab_history") in ("fields", "fields-prop"):
        # other pulse polarisations first (the same detection), then the pulses are set through LabField objects
        hist = [[pols[1], pols[2], pols[0], pols[3]]]
        if all(float(x) == int(x) for x in pols[3]):
            # the earlier setting given the way users type it: lists of integers
            hist = [[[0, 1, 0], [0, 0, 1], [1, 0, 0], [int(x) for x in pols[3]]]]
            ctx.label("lab-history:integer-lists")
    if hist:
        ctx.label("lab-object-reused:" + case["lab_history"])
    lab = None
    cont_reads = {}
    try:
        ok, r = guarded(ctx, "response", lambda: response(qr, mols, J, pols, t2i, shape, want_pathways=True, deph_common=dc,
                                                          read_order=case.get("read_order"), lab_history=hist,
                                                          want_lab=True,
                                                          lab_route=case.get("lab_history"),
                                                          agg_history=case.get("agg_history"),
                                                          calc_units=case.get("calc_units"), cont_out=cont_reads), tag)
    except ReadChanged as e:
        ctx.fail("reading-changes-the-response", tag, part=e.part, change=e.dev, order="".join(e.order))
        return
    if not ok:
        return
    reph, nonr, totl, pws, agg, lab = r
    for (how, k), dev in sorted(cont_reads.items()):
        if dev != 0.0:
            ctx.fail("container-read-equals-response", tag, indexing=how, part=k, deviation=dev)
            return
    peak = max(1e-300, float(numpy.max(numpy.abs(totl))), float(numpy.max(numpy.abs(reph))))
    n_esa = sum(1 for p in pws if "f" in str(p.pathway_name))
    ctx.mark_nontrivial(n >= 2 and n_esa >= 1 and noncol and nonpar)
    if not (numpy.all(numpy.isfinite(reph)) and numpy.all(numpy.isfinite(nonr))):
        ctx.fail("finite", tag)
        return
    ctx.close("total-is-reph-plus-nonr", totl, reph + nonr, rtol=1e-10, scale=peak, where=tag)

    if kind == "prefactor":
        worst = 0.0
        rho0 = numpy.array(agg.rho0)
        for p in pws:
            dm = numpy.array(p.dmoments, dtype=float)[:4]
            n0 = int(p.transitions[0, 1])
            sign = -1.0 if "f" in str(p.pathway_name) else 1.0
            want = sign * orient_average(pols, dm) * float(numpy.real(rho0[n0, n0])) * p.evolfac
            sc = float(numpy.prod([numpy.linalg.norm(x) for x in dm]))
            dev = abs(complex(p.pref) - want)
            if dev > 1e-10 * sc + 1e-300:
                ctx.fail("orientational-prefactor", tag, pathway=str(p.pathway_name), got=complex(p.pref), want=complex(want),
                         dipole_scale=sc)
                return
            worst = max(worst, dev / max(sc, 1e-300))
        ctx.bound("orientational-prefactor", worst, 1e-10, where=tag, pathways=len(pws))
        ctx.label("pathways=%d" % min(len(pws), 50))
        if case.get("reaverage") and lab is not None:
            # the same pathway objects averaged again after the lab object got other polarisations
            p2 = [pols[1], pols[3], pols[0], pols[2]]

            def again():
                lab.set_pulse_polarizations(pulse_polarizations=(p2[0], p2[1], p2[2]), detection_polarization=p2[3])
                for p in pws:
                    p.orientational_averaging(lab)
                return [complex(p.pref) for p in pws]
            ok, prefs = guarded(ctx, "response", again, tag + "/re-averaged")
            if ok:
                worst = 0.0
                for p, pref in zip(pws, prefs):
                    dm = numpy.array(p.dmoments, dtype=float)[:4]
                    n0 = int(p.transitions[0, 1])
                    sign = -1.0 if "f" in str(p.pathway_name) else 1.0
                    want = sign * orient_average(p2, dm) * float(numpy.real(rho0[n0, n0])) * p.evolfac
                    sc = float(numpy.prod([numpy.linalg.norm(x) for x in dm]))
                    worst = max(worst, abs(pref - want) / max(sc, 1e-300))
                ctx.bound("orientational-prefactor", worst, 1e-10, where=tag + "/re-averaged-after-lab-change",
                          pathways=len(pws))
        return

    if kind == "symmetry":
        # scale of the comparison: the response for all-parallel polarisations (the generated polarisations may give
        # a response that vanishes by symmetry, whose rounding noise must not be mistaken for a signal)
        ok, r0 = guarded(ctx, "response", lambda: response(qr, mols, J, [numpy.array(AXES[0])] * 4, t2i, shape, deph_common=dc), tag + "/XXXX")
        if ok:
            peak = max(peak, float(numpy.max(numpy.abs(r0[2]))), float(numpy.max(numpy.abs(r0[0]))))
        Rm = rotation(case["quat"])
        mr = [dict(m, d=list(Rm @ numpy.array(m["d"]))) for m in mols]
        ok, r2 = guarded(ctx, "response", lambda: response(qr, mr, J, pols, t2i, shape, deph_common=dc), tag + "/rotated-dipoles")
        if ok:
            ctx.close("dipole-rotation-invariance", r2[0], reph, rtol=1e-9, scale=peak, where=tag, part="REPH")
            ctx.close("dipole-rotation-invariance", r2[1], nonr, rtol=1e-9, scale=peak, where=tag, part="NONR")
        pr = [Rm @ p for p in pols]
        ok, r3 = guarded(ctx, "response", lambda: response(qr, mols, J, pr, t2i, shape, deph_common=dc), tag + "/rotated-polarisations")
        if ok:
            ctx.close("polarisation-rotation-invariance", r3[2], totl, rtol=1e-9, scale=peak, where=tag)
        s = case["scale"]
        ms = [dict(m, d=[s * x for x in m["d"]]) for m in mols]
        ok, r4 = guarded(ctx, "response", lambda: response(qr, ms, J, pols, t2i, shape, deph_common=dc), tag + "/scaled")
        if ok:
            ctx.close("fourth-power-scaling", r4[2], s ** 4 * totl, rtol=1e-9, scale=s ** 4 * peak, where=tag)
        return

    # additivity: J = 0
    ok, r0 = guarded(ctx, "response", lambda: response(qr, mols, J, [numpy.array(AXES[0])] * 4, t2i, shape, deph_common=dc), tag + "/XXXX")
    if ok:
        peak = max(peak, float(numpy.max(numpy.abs(r0[2]))), float(numpy.max(numpy.abs(r0[0]))))
    sr = numpy.zeros_like(reph)
    sn = numpy.zeros_like(nonr)
    for m in mols:
        ok, r1 = guarded(ctx, "response", lambda m=m: response(qr, [m], [[0]], pols, t2i, shape, mult=1, deph_common=dc), tag + "/single")
        if not ok:
            return
        sr = sr + r1[0]
        sn = sn + r1[1]
    ctx.close("uncoupled-additivity", reph, sr, rtol=1e-9, scale=peak, where=tag, part="REPH", t2i=t2i)
    ctx.close("uncoupled-additivity", nonr, sn, rtol=1e-9, scale=peak, where=tag, part="NONR", t2i=t2i)
