"""C17  Population (master-equation) dynamics conserve and match the exponential.

A case is a *history*: a list of set_rate calls (including overwrites and
inadmissible diagonal assignments) followed by a propagation set-up.
Oracle: a dict model of the last assigned rates; scipy.linalg.expm.
"""
import numpy
import scipy.linalg
from hypothesis import strategies as st

ID = "C17"
TECHNIQUE = ("Hypothesis-generated set_rate histories against a dict model; propagation and propagation matrix "
             "against scipy.linalg.expm with the exact truncation error of the order-4 expansion as bound")
LEVEL = ("(Rates from 1e-2 down to 1e-10 per fs, tiny relative refinements of assigned rates, initial populations given as float arrays, integer arrays or lists of ints.) Generated editing histories (overwrites, zero rates, refused diagonal assignments) are replayed on a "
         "RateMatrix and on a dict model, comparing the full matrix after every step; the final matrix is "
         "propagated and compared with the matrix exponential (sum conservation, non-negativity, agreement within "
         "3x the exact truncation error), and get_PropagationMatrix on generated compatible sub-axes (step "
         "multiples 1..5, shifted starts on and off the coarse grid) is compared with expm."
         " Later additions: constructor routes of the rate matrix (dimension, float zeros, integer zeros, dimension together with float/int/int32 zeros); refused assignment to a state that does not exist; a rate edited after the first propagation.")
NOTE = ("dim <= 6, dt*||K||_1 <= 0.5 (the 'admissible' regime), axes with binary-fraction steps so that the "
        "library's exact float subset test is satisfiable; integer-lattice rates (reach degenerate/defective K).")
RULE = ("history = dim 2..6, 1..14 set_rate ops (i,j,v>=0 on an integer lattice times a unit; i==j allowed -> must "
        "raise and leave data unchanged), p0 >= 0 integers, TimeAxis (start, dt in {0.25,..,2}, 5..60 points), "
        "sub-axis (multiple 1..5, shift 0..6). Non-trivial: dim >= 3, at least one overwritten rate, and a "
        "sub-axis with multiple >= 2 or a shifted start.")
ASSUMPTIONS = [
    "rates are non-negative; step sizes satisfy dt*||K||_1 <= 0.5 (chosen by construction)",
    "sub-axes are generated compatible (is_subset_of is an exact float test; binary-fraction steps)",
]
BUDGET = {"quick": (600, 60), "thorough": (4000, 500)}


@st.composite
def _hist(draw, big):
    dim = draw(st.integers(2, 6))
    idx = st.integers(0, dim - 1)
    ops = draw(st.lists(st.tuples(idx, idx, st.integers(0, 20) | st.sampled_from([0, 1, 1, 5, 10])),
                        min_size=1, max_size=14 if not big else 24))
    # rate unit in 1/fs: from ordinary transfer rates down to very slow ones
    unit = draw(st.sampled_from([0.001, 0.002, 0.005, 0.01, 0.001, 0.01, 1e-6, 1e-9, 1e-10]))
    p0 = draw(st.lists(st.integers(0, 5), min_size=dim, max_size=dim))
    # some assignments are tiny relative refinements of the integer value (a re-fitted rate)
    eps = draw(st.lists(st.sampled_from([0.0, 0.0, 0.0, 1e-7, -3e-6, 2e-9]), min_size=len(ops), max_size=len(ops)))
    ops = [list(o) + [e] for o, e in zip(ops, eps)]
    return {"dim": dim, "ops": [list(o) for o in ops], "unit": unit, "p0": p0,
            # how the initial populations are handed over: float array, integer array, list of Python ints
            "p0_type": draw(st.sampled_from(["float", "float", "int", "list"])),
            "corrections_first": draw(st.sampled_from([False, False, True])),
            "s0": draw(st.sampled_from([0, 0, 5, -4])),
            "dt": draw(st.sampled_from([0.25, 0.5, 1.0, 2.0])),
            "nt": draw(st.integers(5, 60 if not big else 200)),
            "mult": draw(st.integers(1, 5)), "shift": draw(st.integers(0, 6)),
            "sublen": draw(st.integers(2, 12)),
            # positions (in the list of assignments) after which an assignment to a state that does not exist is tried
            # (refused by the library; the caller catches the exception and goes on)
            "bad_after": draw(st.lists(st.integers(0, 13), max_size=2)),
            # how the (empty) rate matrix is created: by dimension, from a float array of zeros, from an integer one
            "ctor": draw(st.sampled_from(["dim", "dim", "zeros-float", "zeros-int", "dim+zeros-float", "dim+zeros-int",
                                           "dim+zeros-int32"])),
            # one more assignment made after the first propagation, followed by a second propagation with the same
            # propagator object: [to, from, value]
            "edit_after": draw(st.sampled_from([None, None]) | st.tuples(idx, idx, st.integers(1, 20)).map(list))}


def strategy(tier):
    return _hist(tier == "thorough")


def model_matrix(model, dim):
    K = numpy.zeros((dim, dim))
    for (i, j), v in model.items():
        K[i, j] = v
    for j in range(dim):
        K[j, j] = -(numpy.sum(K[:, j]) - K[j, j])
    return K


def check_case(case, ctx):
    from quantarhei import TimeAxis
    from quantarhei.qm.liouvillespace.rates.ratematrix import RateMatrix
    from quantarhei.qm.propagators.poppropagator import PopulationPropagator
    from ..core import guarded

    dim, unit = case["dim"], case["unit"]
    ctor = case.get("ctor", "dim")
    if ctor == "dim":
        R = RateMatrix(dim=dim)
    else:
        dt_ = {"float": float, "int": int, "int32": numpy.int32}[ctor.split("-")[-1]]
        if ctor.startswith("dim+"):
            # dimension and (matching) data both given
            R = RateMatrix(dim=dim, data=numpy.zeros((dim, dim), dtype=dt_))
        else:
            R = RateMatrix(data=numpy.zeros((dim, dim), dtype=dt_))
    ctx.label("ctor:" + ctor)
    model = {}
    overwritten = False
    scale = 20 * unit
    for step, op in enumerate(case["ops"]):
        i, j, v = op[0], op[1], op[2]
        val = v * unit * (1.0 + (op[3] if len(op) > 3 else 0.0))
        before = numpy.array(R.data, copy=True)
        if i == j:
            try:
                R.set_rate((i, j), val)
                ctx.fail("set_rate/diagonal-accepted", step=step)
            except Exception:
                ctx.label("diag-refused")
            if not numpy.array_equal(before, R.data):
                ctx.fail("set_rate/refusal-changed-data", step=step)
            continue
        ok, _ = guarded(ctx, "set_rate", lambda: R.set_rate((i, j), val))
        if not ok:
            return
        if (i, j) in model:
            overwritten = True
        model[(i, j)] = val
        K = model_matrix(model, dim)
        ctx.close("set_rate/matrix", R.data, K, rtol=1e-12, scale=scale, step=step)
        ctx.close("set_rate/colsum", numpy.sum(R.data, axis=0), numpy.zeros(dim), atol=1e-12 * scale * 50, step=step)
        if step in (case.get("bad_after") or []):
            # an assignment that names a state beyond the last one: refused, and the matrix is what it was
            keep = numpy.array(R.data, copy=True)
            try:
                R.set_rate((dim, j), val + unit)
                ctx.fail("set_rate/out-of-range-accepted", step=step)
            except Exception:
                ctx.label("out-of-range-refused")
            if not numpy.array_equal(keep, R.data):
                ctx.fail("set_rate/refusal-changed-data", "out-of-range-target", step=step,
                         change=float(numpy.max(numpy.abs(keep - R.data))))
                return
    K = model_matrix(model, dim)
    knorm = float(numpy.max(numpy.sum(numpy.abs(K), axis=0)))

    # ---- propagation -------------------------------------------------------
    dt = case["dt"]
    while dt * knorm > 0.5:
        dt = dt / 2.0
    nt = case["nt"]
    t0 = case["s0"] * dt
    ta = TimeAxis(t0, nt, dt)
    p0 = numpy.array(case["p0"], dtype=float)
    ctx.label("dim=%d" % dim, "K=0" if knorm == 0 else "K!=0")
    ok, prop = guarded(ctx, "propagate", lambda: PopulationPropagator(ta, rate_matrix=R))
    if not ok:
        return
    pt = case.get("p0_type", "float")
    p0_arg = p0 if pt == "float" else (numpy.array(case["p0"], dtype=int) if pt == "int" else [int(x) for x in case["p0"]])
    ctx.label("p0:" + pt)
    ok, pops = guarded(ctx, "propagate", lambda: prop.propagate(p0_arg))
    if ok:
        pops = numpy.asarray(pops)
        E = scipy.linalg.expm(K * dt)
        T = numpy.eye(dim)
        term = numpy.eye(dim)
        for l in range(1, 5):
            term = term @ (K * dt) / l
            T = T + term
        pe = p0.copy()
        pt = p0.copy()
        exact = [pe.copy()]
        tau = 0.0
        for n in range(1, nt):
            pe = E @ pe
            pt = T @ pt
            exact.append(pe.copy())
            tau = max(tau, float(numpy.max(numpy.abs(pe - pt))))
        exact = numpy.array(exact)
        bound = 3 * tau + 1e-9 * max(1.0, float(numpy.sum(p0)))
        if pops.shape != exact.shape:
            ctx.fail("propagate/shape", got=list(pops.shape))
        else:
            ctx.close("propagate/sum", numpy.sum(pops, axis=1), numpy.full(nt, numpy.sum(p0)), rtol=1e-10, atol=1e-12)
            ctx.bound("propagate/expm", float(numpy.max(numpy.abs(pops - exact))), bound)
            ctx.bound("propagate/nonneg", float(max(0.0, -numpy.min(pops))), bound)

    # ---- the rate matrix is edited after the first propagation; the same propagator is used again ----------------
    ea = case.get("edit_after")
    if ea and ea[0] != ea[1] and ok:
        val2 = ea[2] * unit
        model2 = dict(model)
        model2[(ea[0], ea[1])] = val2
        K2 = model_matrix(model2, dim)
        if dt * float(numpy.max(numpy.sum(numpy.abs(K2), axis=0))) <= 0.5:
            ok2, _ = guarded(ctx, "set_rate", lambda: R.set_rate((ea[0], ea[1]), val2), "after-propagation")
            if not ok2:
                return
            ok2, pops2 = guarded(ctx, "propagate", lambda: prop.propagate(p0_arg), "second-propagation")
            if ok2:
                pops2 = numpy.asarray(pops2)
                E2 = scipy.linalg.expm(K2 * dt)
                T2 = numpy.eye(dim)
                term = numpy.eye(dim)
                for l in range(1, 5):
                    term = term @ (K2 * dt) / l
                    T2 = T2 + term
                pe, ptt, tau2 = p0.copy(), p0.copy(), 0.0
                ex2 = [pe.copy()]
                for n in range(1, nt):
                    pe = E2 @ pe
                    ptt = T2 @ ptt
                    ex2.append(pe.copy())
                    tau2 = max(tau2, float(numpy.max(numpy.abs(pe - ptt))))
                ctx.bound("propagate/expm", float(numpy.max(numpy.abs(pops2 - numpy.array(ex2)))),
                          3 * tau2 + 1e-9 * max(1.0, float(numpy.sum(p0))), where="rates-edited-after-first-propagation")
                ctx.label("edited-after-propagation")
            model, K = model2, K2

    # ---- propagation matrix on a sub-axis -----------------------------------
    mult, shift = case["mult"], case["shift"]
    shift = min(shift, nt - 2)
    mult = max(1, min(mult, nt - 1 - shift))
    L = min(case["sublen"], (nt - 1 - shift) // mult + 1)
    if L < 2:
        ctx.label("no-subaxis")
    else:
        ts = TimeAxis(t0 + shift * dt, L, mult * dt)
        kind = "mult%s/%s" % ("1" if mult == 1 else ">1",
                              "shift0" if shift == 0 else ("on-grid" if shift % mult == 0 else "off-grid"))
        ctx.label("sub:" + kind)
        if case.get("corrections_first"):
            # the perturbative corrections were asked for before (non-default option): the propagator and the caller's
            # rate matrix must be what they were
            ok, _ = guarded(ctx, "propmatrix", lambda: prop.get_PropagationMatrix(ts, corrections=0), kind + "/corrections")
            if not ok:
                return
            ctx.close("set_rate/matrix", R.data, K, rtol=1e-12, scale=scale, where="after-corrections-call")
            ctx.label("corrections-asked-first")
        ok, U = guarded(ctx, "propmatrix", lambda: prop.get_PropagationMatrix(ts), kind)
        if ok:
            U = numpy.asarray(U)
            ref = numpy.zeros((dim, dim, L))
            for n in range(L):
                ref[:, :, n] = scipy.linalg.expm(K * ((shift + n * mult) * dt))
            if U.shape != ref.shape:
                ctx.fail("propmatrix/shape", kind, got=list(U.shape))
            else:
                ctx.close("propmatrix/expm", U, ref, rtol=1e-8, scale=1.0, where=kind)
        ctx.mark_nontrivial(dim >= 3 and overwritten and (mult >= 2 or shift > 0))
