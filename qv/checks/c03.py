"""C03  Aggregate Hamiltonian and dipole operator are the Frenkel-exciton ones.

Oracle: a Frenkel model built from scratch from occupation signatures
(itertools.combinations); the SI point-dipole formula; basis-free invariants
for relabelling.
"""
import numpy
from hypothesis import strategies as st

from .. import oracles as orc
from ..core import guarded

ID = "C03"
TECHNIQUE = ("Hypothesis-generated aggregates (N<=5, mult 1/2, couplings, dipoles, permutations, unit contexts, "
             "geometries) against a from-scratch Frenkel model, SI point-dipole formula and permutation invariants")
LEVEL = ("For generated sets of two-level molecules (read directly after build() or after the aggregate has been diagonalised / read inside its eigenbasis) the state list (elsigs, Nb, band order) is compared with the set of "
         "all occupation tuples, every Hamiltonian and dipole element with the element predicted from the two "
         "signatures, the same system supplied in other energy units / built under another units context with the "
         "same internal matrix, a relabelled copy through basis-free invariants (sorted spectrum, one- and two-photon "
         "moments <0|D H^k D|0>, <0|DD H^k DD|0>), and couplings from positions and dipoles with the SI formula."
         " Later additions: the electronic Hamiltonian accessor, rebuild() in a units context, the general coupling entry point calculate_resonance_coupling, Hamiltonian diagonalised and brought back in units as a use before reading. Round five: transitions named by index and by state object; electronic Hamiltonian asked for in units; two molecules at one place.")
NOTE = ("Two-level molecules only (three-level molecules are outside 'Frenkel exciton'); order of states inside a "
        "band is read from elsigs, not claimed; N <= 5 quick / 6 thorough (<= 22 states); units with a multiplicative conversion only "
        "(nm cannot express a zero ground-state energy).")
RULE = ("case = N 1..5 (6 thorough) molecules, integer site energies (cm^-1, repeats allowed), symmetric integer couplings with "
        "many zeros, half-integer dipole vectors (Debye), multiplicity 1|2, permutation, input unit, build unit, "
        "optional geometry (integer positions >= 3 A apart, eps_r). Non-trivial: N >= 3, mult = 2, >= 2 non-zero "
        "couplings and a non-identity permutation.")
ASSUMPTIONS = [
    "unit conversion factors of the oracle are typed-in SI-2019/CODATA-2018 constants; agreement required to 1e-7 relative",
    "reads pass the intended units explicitly (the units leak of build() is C05's clause)",
]
BUDGET = {"quick": (500, 75), "thorough": (1500, 600)}

UNITS = ["int", "1/fs", "1/cm", "THz", "eV", "meV", "J", "SI", "Ha", "a.u."]


@st.composite
def _cases(draw, nmax):
    n = draw(st.integers(1, nmax) | st.integers(3, nmax))
    e0 = draw(st.integers(9000, 16000))
    E = [e0 + draw(st.integers(-600, 600) | st.sampled_from([0, 0, 100])) for _ in range(n)]
    J = [[0] * n for _ in range(n)]
    for i in range(n):
        for j in range(i + 1, n):
            v = draw(st.sampled_from([0, 1, 1]).flatmap(lambda z: st.just(0) if z == 0 else st.integers(-400, 400)))
            J[i][j] = J[j][i] = v
    comp = st.integers(-6, 6).map(lambda k: k / 2.0)
    d = [[draw(comp), draw(comp), draw(comp)] for _ in range(n)]
    mult = draw(st.sampled_from([1, 2, 2]))
    perm = draw(st.permutations(list(range(n))))
    geom = None
    if n >= 2 and draw(st.booleans()):
        # positions on an integer lattice scaled by 3 A: distinct lattice points are >= 3 A apart
        pts = draw(st.lists(st.tuples(st.integers(-3, 3), st.integers(-3, 3), st.integers(-3, 3)),
                            min_size=n, max_size=n, unique=True))
        # positions are given the way users give them: integer lists, float lists or a mixture
        as_int = draw(st.sampled_from(["float", "int", "mixed"]))
        pos = []
        for i, p in enumerate(pts):
            if as_int == "int" or (as_int == "mixed" and i % 2 == 0):
                pos.append([3 * p[0], 3 * p[1], 3 * p[2]])
            else:
                pos.append([3.0 * p[0], 3.0 * p[1], 3.0 * p[2] + 0.5 * (i % 2)])
        geom = {"pos": pos,
                "epsr": draw(st.sampled_from([1.0, 1.5, 2.0, 3.0])),
                "u_read": draw(st.sampled_from(UNITS)),
                "route": draw(st.sampled_from(["set", "calculate"])),
                # two transitions located at the same place (e.g. two transitions of one pigment): no point-dipole
                # coupling between them
                "coincident": draw(st.sampled_from([False, False, True])) if n >= 3 else False}
    # what the built aggregate is used for before its operators are read (the built operators must stay the site-basis
    # Frenkel ones whatever else is done with the aggregate)
    uses = draw(st.lists(st.sampled_from(["diagonalize", "read-in-eigenbasis", "read", "ham-there-and-back-in-units"]), max_size=2))
    return {"N": n, "E": E, "J": J, "d": d, "mult": mult, "perm": list(perm), "uses": uses,
            "rebuild_shift": draw(st.sampled_from([0, 0, 130, -75])),
            # the rebuild is made while other energy units are current
            "rebuild_units": draw(st.sampled_from([None, None, "1/cm", "eV"])),
            "u_in": draw(st.sampled_from(UNITS)), "u_build": draw(st.sampled_from(UNITS)), "geom": geom}


def strategy(tier):
    return _cases(5 if tier == "quick" else 6)


def build_aggregate(qr, E, J, d, mult, u_in, u_build, pos=None):
    """The documented construction pattern, parameters given in u_in, built under u_build."""
    n = len(E)
    with qr.energy_units(u_in):
        mols = []
        for i in range(n):
            m = qr.Molecule([0.0, float(orc.convert(E[i], "1/cm", u_in))])
            m.set_dipole(0, 1, list(d[i]))
            if pos is not None:
                m.position = pos[i]
            mols.append(m)
        agg = qr.Aggregate(molecules=mols)
        for i in range(n):
            for j in range(i + 1, n):
                if J[i][j] != 0:
                    agg.set_resonance_coupling(i, j, float(orc.convert(J[i][j], "1/cm", u_in)))
    with qr.energy_units(u_build):
        agg.build(mult=mult)
    return agg


def read_HD(qr, agg):
    with qr.energy_units("int"):
        H = numpy.array(agg.get_Hamiltonian().data, dtype=float)
    D = numpy.array(agg.get_TransitionDipoleMoment().data, dtype=float)
    return H, D


def invariants(H, D, nstates0=1):
    ev = numpy.sort(numpy.linalg.eigvalsh(H))
    g = numpy.zeros(H.shape[0])
    g[0] = 1.0
    Hs = H / max(1.0, float(numpy.max(numpy.abs(H))))
    m1, m2 = [], []
    for k in range(6):
        Hk = numpy.linalg.matrix_power(Hs, k)
        a = 0.0
        b = 0.0
        for x in range(3):
            v = D[:, :, x] @ g
            a += float(v @ Hk @ v)
            for y in range(3):
                w = D[:, :, y] @ (D[:, :, x] @ g)
                b += float(w @ Hk @ w)
        m1.append(a)
        m2.append(b)
    return ev, numpy.array(m1), numpy.array(m2)


def check_case(case, ctx):
    import quantarhei as qr
    import math
    n, E, J, d, mult = case["N"], case["E"], case["J"], case["d"], case["mult"]
    mult_eff = mult
    nz = sum(1 for i in range(n) for j in range(i + 1, n) if J[i][j] != 0)
    perm = case["perm"]
    ctx.label("N=%d" % n, "mult=%d" % mult, "u_in=" + case["u_in"], "geom" if case["geom"] else "nogeom")
    ctx.mark_nontrivial(n >= 3 and mult == 2 and nz >= 2 and perm != sorted(perm))

    ok, agg = guarded(ctx, "build", lambda: build_aggregate(qr, E, J, d, mult, "1/cm", "1/cm"))
    if not ok:
        return

    def use():
        for u in case.get("uses", []):
            if u == "diagonalize":
                agg.diagonalize()
            elif u == "read":
                read_HD(qr, agg)
            elif u == "ham-there-and-back-in-units":
                # the Hamiltonian object is diagonalised and brought back while other energy units are current
                hh = agg.get_Hamiltonian()
                with qr.energy_units("1/cm"):
                    hh.diagonalize()
                    hh.undiagonalize()
            else:
                with qr.eigenbasis_of(agg.get_Hamiltonian()):
                    read_HD(qr, agg)
    if case.get("uses"):
        ctx.label("used-before-read:" + "+".join(case["uses"]))
        ok, _ = guarded(ctx, "use-before-read", use)
        if not ok:
            return
    H, D = read_HD(qr, agg)

    # ---- state list ----------------------------------------------------------
    want = orc.frenkel_signatures(n, mult_eff)
    sigs = [tuple(int(x) for x in s) for s in agg.elsigs]
    if sorted(sigs) != sorted(want) or len(set(sigs)) != len(sigs):
        ctx.fail("states/set", got=sigs, want=want)
        return
    bands = [sum(s) for s in sigs]
    if bands != sorted(bands):
        ctx.fail("states/band-order", bands=bands)
        return
    nb_want = [math.comb(n, b) for b in range(mult_eff + 1)]
    if [int(x) for x in agg.Nb] != nb_want:
        ctx.fail("states/Nb", got=[int(x) for x in agg.Nb], want=nb_want)
    if H.shape != (len(sigs), len(sigs)) or D.shape != (len(sigs), len(sigs), 3):
        ctx.fail("states/dimension", H=list(H.shape), D=list(D.shape))
        return

    # ---- element-wise Frenkel structure -----------------------------------------
    Eint = [e * orc.CM2INT for e in E]
    Jint = [[x * orc.CM2INT for x in row] for row in J]
    Href, Dref = orc.frenkel_matrices(sigs, Eint, Jint, d)
    escale = max(abs(x) for x in Eint) * max(1, mult_eff)
    ctx.close("hamiltonian/elements", H, Href, rtol=1e-10, scale=escale, mult=mult)
    ctx.close("hamiltonian/symmetric", H, H.T, rtol=1e-12, scale=escale)
    ctx.close("dipole/elements", D, Dref, rtol=1e-12, scale=3.0, mult=mult)

    # ---- the electronic Hamiltonian (for purely electronic aggregates documented to equal the Hamiltonian) --------
    def electronic():
        # asked for while the units of the case are current, read in internal units
        with qr.energy_units(case["u_in"]):
            he = agg.get_electronic_Hamiltonian()
        with qr.energy_units("int"):
            return numpy.array(he.data, dtype=float)
    ok, He = guarded(ctx, "electronic-hamiltonian", electronic)
    if ok:
        if He.shape != Href.shape:
            ctx.fail("electronic-hamiltonian/shape", got=list(He.shape), want=list(Href.shape))
        else:
            ctx.close("electronic-hamiltonian/elements", He, Href, rtol=1e-10, scale=escale, mult=mult)

    # ---- transitions between states, named by index and by state object --------------------------------------
    def transitions():
        out = []
        pairs = [(a, b) for a in range(len(sigs)) for b in range(len(sigs)) if a != b][:12]
        with qr.energy_units(case["u_in"]):
            for a, b in pairs:
                e1, d1 = agg.get_transition(a, b)
                va, vb = agg.get_VibronicState(sigs[a], ()), agg.get_VibronicState(sigs[b], ())
                e2, d2 = agg.get_transition(va, vb)
                out.append((a, b, float(e1), numpy.array(d1, dtype=float), float(e2), numpy.array(d2, dtype=float)))
        return out
    # (after Aggregate.diagonalize() the aggregate's transitions are those between exciton states: not compared here)
    ok, trs = (False, None) if "diagonalize" in case.get("uses", []) else guarded(ctx, "transitions", transitions)
    if ok:
        for a, b, e1, d1, e2, d2 in trs:
            want_e = float(orc.from_internal(Href[a, a] - Href[b, b], case["u_in"]))
            sc_e = float(orc.from_internal(escale, case["u_in"]))
            if not (ctx.close("transition/energy", e1, want_e, rtol=1e-7, scale=sc_e, where="by-index")
                    and ctx.close("transition/energy", e2, want_e, rtol=1e-7, scale=sc_e, where="by-state-object")
                    and ctx.close("transition/dipole", d1, Dref[a, b, :], rtol=1e-12, scale=3.0, where="by-index")
                    and ctx.close("transition/dipole", d2, Dref[a, b, :], rtol=1e-12, scale=3.0, where="by-state-object")):
                break

    # ---- units used for input / at build time -------------------------------------
    u_in, u_b = case["u_in"], case["u_build"]
    ok, agg_u = guarded(ctx, "units/build", lambda: build_aggregate(qr, E, J, d, mult, u_in, u_b), u_in + "," + u_b)
    if ok:
        Hu, Du = read_HD(qr, agg_u)
        ctx.close("units/hamiltonian", Hu, H, rtol=1e-7, scale=escale, where="in=%s" % u_in, u_build=u_b)
        ctx.close("units/dipole", Du, D, rtol=1e-12, scale=3.0)

    # ---- relabelling --------------------------------------------------------------
    Ep = [E[p] for p in perm]
    dp = [d[p] for p in perm]
    Jp = [[J[perm[i]][perm[j]] for j in range(n)] for i in range(n)]
    ok, agg_p = guarded(ctx, "relabel/build", lambda: build_aggregate(qr, Ep, Jp, dp, mult, "1/cm", "1/cm"))
    if ok:
        Hp, Dp = read_HD(qr, agg_p)
        ev, m1, m2 = invariants(H, D)
        evp, m1p, m2p = invariants(Hp, Dp)
        ctx.close("relabel/spectrum", evp, ev, rtol=1e-10, scale=escale)
        ctx.close("relabel/one-photon-moments", m1p, m1, rtol=1e-9, scale=max(1e-12, float(numpy.max(numpy.abs(m1)))))
        ctx.close("relabel/two-photon-moments", m2p, m2, rtol=1e-9, scale=max(1e-12, float(numpy.max(numpy.abs(m2)))))

    # ---- exciton quantities of a re-used aggregate -------------------------------------------------------
    # dipole strengths asked for inside the eigenbasis (as the first thing done there), and the diagonalised aggregate
    # after a parameter was changed and the aggregate was rebuilt
    evs, SSo = numpy.linalg.eigh(Href)
    gaps_ok = len(evs) < 2 or float(numpy.min(numpy.diff(evs))) > 1e-6 * escale
    if gaps_ok and mult == 1:
        def strengths():
            a = build_aggregate(qr, E, J, d, mult, "1/cm", "1/cm")
            Hh, Dd = a.get_Hamiltonian(), a.get_TransitionDipoleMoment()
            with qr.eigenbasis_of(Hh):
                return [float(Dd.dipole_strength(0, k)) for k in range(1, len(evs))]
        ok, got = guarded(ctx, "dipole-strength", strengths)
        if ok:
            want = []
            for k in range(1, len(evs)):
                vec = numpy.einsum("a,b,abi->i", SSo[:, 0], SSo[:, k], Dref)
                want.append(float(vec @ vec))
            ctx.close("dipole-strength/in-eigenbasis", got, want, rtol=1e-9, scale=max(1e-12, max(want) if want else 1.0))
    if gaps_ok and case.get("rebuild_shift"):
        def rebuilt():
            a = build_aggregate(qr, E, J, d, mult, "1/cm", "1/cm")
            a.diagonalize()
            with qr.energy_units("1/cm"):
                a.monomers[0].set_energy(1, float(E[0] + case["rebuild_shift"]))
            if case.get("rebuild_units"):
                with qr.energy_units(case["rebuild_units"]):
                    a.rebuild(mult=mult)
            else:
                a.rebuild(mult=mult)
            a.diagonalize()
            return numpy.array(a.HD, dtype=float)
        ok, hd = guarded(ctx, "rebuild", rebuilt)
        if ok:
            E2 = list(Eint)
            E2[0] = (E[0] + case["rebuild_shift"]) * orc.CM2INT
            H2, _ = orc.frenkel_matrices(sigs, E2, Jint, d)
            ctx.close("rebuilt-aggregate/exciton-energies", numpy.sort(hd), numpy.linalg.eigvalsh(H2), rtol=1e-9, scale=escale)
            ctx.label("rebuilt-after-energy-change" + ("-in-units" if case.get("rebuild_units") else ""))

    # ---- point-dipole couplings -----------------------------------------------------
    g = case["geom"]
    if g and g.get("coincident"):
        g = dict(g, pos=[list(p) for p in g["pos"]])
        g["pos"][2] = list(g["pos"][1])
        ctx.label("geometry:two-molecules-at-one-place")
    if g:
        def build_geom():
            a = build_aggregate(qr, E, [[0] * n for _ in range(n)], d, 1, "1/cm", "1/cm", pos=g["pos"])
            with qr.energy_units(g["u_read"]):
                if g.get("route", "set") == "set":
                    a.set_coupling_by_dipole_dipole(epsr=g["epsr"])
                else:
                    # the general entry point with the method named and its parameters in a dictionary
                    a.calculate_resonance_coupling(method="dipole-dipole", params=dict(epsr=g["epsr"]))
            return a
        ok, ag = guarded(ctx, "point-dipole", build_geom)
        if ok:
            got = numpy.array(ag.resonance_coupling, dtype=float)
            ref = numpy.zeros((n, n))
            for i in range(n):
                for j in range(n):
                    if i != j and list(map(float, g["pos"][i])) != list(map(float, g["pos"][j])):
                        ref[i, j] = orc.point_dipole_coupling_int(g["pos"][i], g["pos"][j], d[i], d[j], g["epsr"])
            scale = max(1e-9, float(numpy.max(numpy.abs(ref))))
            ctx.close("point-dipole/matrix", got, ref, rtol=1e-6, scale=scale, epsr=g["epsr"])
            # single pair read in another unit
            with qr.energy_units(g["u_read"]):
                ok2, v = guarded(ctx, "point-dipole", lambda: ag.dipole_dipole_coupling(0, n - 1, epsr=g["epsr"]))
            if ok2:
                ctx.close("point-dipole/pair-units", float(v), float(orc.from_internal(ref[0, n - 1], g["u_read"])),
                          rtol=1e-6, scale=float(orc.from_internal(scale, g["u_read"])), where=g["u_read"])
