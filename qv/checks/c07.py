"""C07  Operator form, tensor form and exact limits of a tensor agree.

Oracles: differential (two representations of the same tensor built from
identical inputs); the static tensor as the long-time limit of the
time-dependent one; the analytic pure-dephasing solution exp(-i w t - g(t))
with g(t) from the closed form of the bath's exponentials.
"""
import math

import numpy
from hypothesis import strategies as st

from .. import oracles as orc
from .. import gens
from ..core import guarded

ID = "C07"
TECHNIQUE = ("Hypothesis-generated systems/operators/states: differential operator-form vs tensor-form (action, "
             "conversion, propagation, every basis), time-dependent vs static tensor limits, and the closed-form "
             "pure-dephasing solution for uncoupled sites")
LEVEL = ("(Limit clause also with a bath-memory cut-off time and through both construction routes; time-dependent operator form converted to a tensor and compared in every basis.) (1) Redfield (static) and Lindblad tensors built twice from identical generated inputs, once as operators and "
         "once as a four-index tensor: apply(A) on generated non-Hermitian complex operators agrees outside any context, "
         "inside eigenbasis_of(H) and inside an unrelated basis, before and after convert_2_tensor(); (2) propagation "
         "with both forms (static and time-dependent Redfield, Lindblad; output axis equal to or coarser than the "
         "bath axis, with refinement) agrees at every stored time; (3) TD tensor is zero at the first time index and "
         "equals the static tensor at the last; (4) uncoupled sites with high-temperature or general overdamped "
         "Brownian baths: TD-Redfield propagation of every coherence equals exp(-i(w-W)t - g_a(t) - conj g_b(t)) within "
         "the first-order endpoint-rule error dt*max|dg/dt| plus the Taylor truncation bound."
         " Later additions: deterministic grid of time dependence x coarser axis x refinement x dephasing x named expansion order. Round five: the time-dependent tensor acting as its elements; twin Lindblad forms from one interaction object.")
NOTE = ("Clause 4 tolerance is an explicit error model: the time-local propagation sums g'(t_n) dt instead of "
        "integrating g', which is bounded by dt times the total variation of g' (bounded analytically, exponential term "
        "by term); allowed = 1.25*|rho_ab(0)|*dt_eff*TV(g_a' + conj g_b') + class-2 bound + 2e-4, the factor 1.25 "
        "covering the tensor's own spline quadrature of unresolved Matsubara terms (worst observed 1.053 in two thorough "
        "runs; the first version, dt*max|g'|, raised two false alarms there). dim <= 4; <= 200 bath time points.")
RULE = ("kind forms: gens.system_spec (coupled) or Lindblad operators + complex operator A + rho0 + other-basis operator "
        "+ (td, output step multiple m in 1..4, Nref dividing m); kind limit: coupled system; kind dephasing: 1..3 "
        "uncoupled sites, bath type, m, Nref. Non-trivial: non-Hermitian A and N >= 2 (forms); lambda >= 10 cm^-1 so "
        "that |exp(-g)| drops below 0.9 (dephasing).")
ASSUMPTIONS = [
    "two tensors built from identical inputs are required to agree to 1e-9 relative (same arithmetic in both forms)",
    "Matsubara expansion of the oracle uses the same number of terms as the generated bath parameter",
]
BUDGET = {"quick": (150, 90), "thorough": (500, 800)}


@st.composite
def _forms(draw):
    which = draw(st.sampled_from(["redfield", "redfield", "lindblad"]))
    out = {"kind": "forms", "which": which}
    if which == "redfield":
        spec = draw(gens.system_spec(nmin=2, nmax=3, coupled=True, tmin=77, tmax=350, ntmax=160, spread=400, jmax=250,
                                     dipoles=False))
        dim = len(spec["E"]) + 1
        td = draw(st.booleans())
        m = draw(st.sampled_from([1, 1, 2, 4]))
        out.update({"spec": spec, "td": td, "m": m, "nref": draw(st.sampled_from([d for d in (1, 2, 4) if m % d == 0]))})
    else:
        dim = draw(st.integers(2, 4))
        ops, rates = [], []
        for _ in range(draw(st.integers(1, 3))):
            if draw(st.booleans()):
                ops.append({"proj": [draw(st.integers(0, dim - 1)), draw(st.integers(0, dim - 1))]})
            else:
                ops.append({"dense": [[draw(st.integers(-2, 2)) / 2.0 for _ in range(dim)] for _ in range(dim)]})
            rates.append(draw(st.integers(1, 50)))
        out.update({"H": draw(gens.symmetric_matrix(dim, -300, 300, 0.001, 0, 1000)), "ops": ops, "rates": rates,
                    "td": False, "m": 1, "nref": draw(st.sampled_from([1, 2]))})
    other = [[0] * dim for _ in range(dim)]
    for i in range(dim):
        for j in range(i, dim):
            other[i][j] = other[j][i] = draw(st.integers(-5, 5))
    out.update({"A": draw(gens.complex_matrix(dim)), "rho": draw(gens.density_matrix_spec(dim)), "other": other,
                # additional pure dephasing in the propagators (time-independent tensors), one initial-state object
                # handed to both propagations, apply(copy=False) on an operator given as a real array
                "pd": draw(st.sampled_from([None, None, "Lorentzian", "Gaussian"])),
                # expansion order asked for by name (None: the default method)
                "order": draw(st.sampled_from([None, None, 2, 4, 6])),
                "share_rho": draw(st.booleans()), "apply_real_inplace": draw(st.booleans())})
    return out


@st.composite
def _limit(draw):
    spec = draw(gens.system_spec(nmin=2, nmax=3, coupled=True, tmin=77, tmax=350, ntmax=200, spread=400, jmax=250,
                                 dipoles=False))
    # optional bath-memory cut-off (in correlation times; put on the grid and inside the axis by the check) and the
    # construction route: through the aggregate or with the constructors in the library's own pattern
    return {"kind": "limit", "spec": spec, "as_ops": draw(st.booleans()),
            "cutoff_in_cortimes": draw(st.sampled_from([None, None, 0.5, 1, 2, 4])),
            "route": draw(st.sampled_from(["aggregate", "direct"]))}


@st.composite
def _deph(draw):
    ft = draw(st.sampled_from(["OverdampedBrownian-HighTemperature", "OverdampedBrownian"]))
    spec = draw(gens.system_spec(nmin=1, nmax=3, coupled=False, ftypes=(ft,), tmin=150, tmax=350, ntmax=200,
                                 lam=(5, 80), tauc=(30, 100), spread=200, dipoles=False))
    n = len(spec["E"])
    m = draw(st.sampled_from([1, 1, 2, 4]))
    return {"kind": "dephasing", "spec": spec, "m": m, "nref": draw(st.sampled_from([d for d in (1, 2, 4) if m % d == 0])),
            "as_ops": draw(st.sampled_from([False, False, True])), "rho": draw(gens.density_matrix_spec(n + 1))}


def strategy(tier):
    return st.one_of(_forms(), _forms(), _limit(), _deph(), _deph())


def grid(tier):
    """Deterministic operator-form / tensor-form comparisons on one fixed trimer and one fixed Lindblad model: every
    combination of time dependence, coarser output axis, refinement and pure dephasing at every seed."""
    spec = {"E": [10000, 10180, 10350], "J": [[0, 90, 30], [90, 0, -130], [30, -130, 0]],
            "d": [[0.0, 0.0, 0.0]] * 3, "T": 200,
            "bath": [{"ftype": "OverdampedBrownian", "reorg": 40 + 10 * i, "cortime": 40 + 10 * i, "matsubara": 10}
                     for i in range(3)],
            "time": [0.0, 120, 1.0]}
    dim = 4
    A = [[[(3 * i + j) % 5 - 2, (i + 2 * j) % 3 - 1] for j in range(dim)] for i in range(dim)]
    rho = [[[1, 0]], [[2, 1]], [[1, -1]], [[0, 2]]]
    other = [[((i + 1) * (j + 2)) % 7 - 3 if i != j else i for j in range(dim)] for i in range(dim)]
    other = [[other[min(i, j)][max(i, j)] for j in range(dim)] for i in range(dim)]
    common = {"A": A, "rho": rho, "other": other, "share_rho": False, "apply_real_inplace": False}
    for pd in (None, "Lorentzian", "Gaussian"):
        for td, m, nref in ((False, 1, 1), (False, 2, 2), (False, 4, 2), (False, 4, 4), (True, 1, 1), (True, 2, 2),
                            (True, 4, 1)):
            for order in ((None, 2, 6) if pd is None else (None,)):
                yield dict(common, kind="forms", which="redfield", spec=spec, td=td, m=m, nref=nref, pd=pd, order=order)
        H = [[0.0, 0.0, 0.0, 0.0], [0.0, 0.31, 0.04, 0.0], [0.0, 0.04, 0.33, -0.05], [0.0, 0.0, -0.05, 0.36]]
        ops = [{"proj": [1, 2]}, {"dense": [[0.0, 0.5, 0.0, 0.0], [0.5, 0.0, 1.0, 0.0], [0.0, 1.0, -0.5, 0.5],
                                            [0.0, 0.0, 0.5, 1.0]]}]
        for nref in (1, 2):
            yield dict(common, kind="forms", which="lindblad", H=H, ops=ops, rates=[20, 7], td=False, m=1, nref=nref,
                       pd=pd)


def check_case(case, ctx):
    return {"forms": _check_forms, "limit": _check_limit, "dephasing": _check_deph}[case["kind"]](case, ctx)


# ---------------------------------------------------------------------------

def _tensor_pair(qr, case, as_ops):
    """(tensor, hamiltonian, bath time axis) from identical inputs; form chosen by as_ops"""
    from quantarhei.qm import LindbladForm, SystemBathInteraction, Operator
    if case["which"] == "lindblad":
        H = numpy.array(case["H"], dtype=float)
        dim = H.shape[0]
        ops = []
        for o in case["ops"]:
            if "proj" in o:
                K = numpy.zeros((dim, dim)); K[o["proj"][0] % dim, o["proj"][1] % dim] = 1.0
            else:
                K = numpy.array(o["dense"], dtype=float)
            ops.append(K)
        with qr.energy_units("int"):
            ham = qr.Hamiltonian(data=H.copy())
        sbi = SystemBathInteraction([Operator(data=K.copy()) for K in ops], rates=tuple(r / 1000.0 for r in case["rates"]))
        norm = max(1e-3, float(numpy.linalg.norm(H, 2)) * 2)
        ta = qr.TimeAxis(0.0, 40, 0.2 / norm)
        return LindbladForm(ham, sbi, as_operators=as_ops), ham, ta
    spec = case["spec"]
    agg = gens.make_aggregate(qr, spec)
    t0, nt, dt = spec["time"]
    ta = qr.TimeAxis(t0, int(nt), dt)
    RT, ham = agg.get_RelaxationTensor(ta, relaxation_theory="standard_Redfield", time_dependent=case["td"],
                                       as_operators=as_ops)
    return RT, ham, ta


def _check_forms(case, ctx):
    import quantarhei as qr
    from quantarhei.qm import Operator, SelfAdjointOperator, ReducedDensityMatrix, ReducedDensityMatrixPropagator
    A = gens.to_complex(case["A"])
    dim = A.shape[0]
    herm = bool(numpy.allclose(A, A.conj().T))
    tag = case["which"] + ("/td" if case["td"] else "/static")
    ctx.label("forms:" + case["which"], "td" if case["td"] else "static", "m=%d" % case["m"], "nref=%d" % case["nref"])
    ctx.mark_nontrivial((not herm) and dim >= 3)
    ok, r = guarded(ctx, "construct", lambda: (_tensor_pair(qr, case, True), _tensor_pair(qr, case, False)), tag)
    if not ok:
        return
    (To, ho, ta), (Tt, ht, _) = r

    # ---- (1) action on an arbitrary operator, every basis, before/after conversion -------------------
    if not case["td"]:
        oth = SelfAdjointOperator(data=numpy.array(case["other"], dtype=float))

        def action(T, basis_ops):
            def go():
                return numpy.array(T.apply(Operator(data=A.copy())).data)
            if not basis_ops:
                return go()
            with qr.eigenbasis_of(basis_ops[0]):
                # A is given in the context basis here; both forms see the same numbers
                return go()

        def compare(label, ham_o, ham_t):
            for bname, bo, bt in (("outside", [], []), ("eigenbasis_of(H)", [ham_o], [ham_t]), ("other-basis", [oth], [oth])):
                ok1, a = guarded(ctx, "apply", lambda: action(To, bo), tag + "/op", basis=bname)
                ok2, b = guarded(ctx, "apply", lambda: action(Tt, bt), tag + "/tensor", basis=bname)
                if ok1 and ok2:
                    ctx.close("forms-act-identically", a, b, rtol=1e-9, scale=max(1e-12, float(numpy.max(numpy.abs(b)))),
                              where=tag + "/" + label, basis=bname)
        compare("before-conversion", ho, ht)
        if case.get("apply_real_inplace"):
            Ar = numpy.array(A.real, dtype=float)

            def inplace(T):
                o = Operator(data=Ar.copy())
                T.apply(o, copy=False)
                return numpy.array(o.data)
            ok1, a = guarded(ctx, "apply", lambda: inplace(To), tag + "/op/copy=False")
            ok2, b = guarded(ctx, "apply", lambda: inplace(Tt), tag + "/tensor/copy=False")
            if ok1 and ok2:
                ctx.close("forms-act-identically", a, b, rtol=1e-9, scale=max(1e-12, float(numpy.max(numpy.abs(b)))),
                          where=tag + "/copy=False-on-real-operator")

    if case["td"]:
        # the time-dependent tensor in tensor form acting on an operator: at every time index the contraction of that
        # time's four-index tensor with the operator
        def td_action():
            res = numpy.array(Tt.apply(Operator(data=A.copy())).data)
            return res, numpy.array(Tt.data)
        ok, ra = guarded(ctx, "apply", td_action, tag + "/tensor")
        if ok:
            want_a = numpy.array([numpy.tensordot(ra[1][k], A) for k in range(ra[1].shape[0])])
            ctx.close("td-tensor-acts-as-its-elements", ra[0], want_a, rtol=1e-10,
                      scale=max(1e-300, float(numpy.max(numpy.abs(want_a)))), where=tag)
    elif case["which"] == "lindblad":
        # a second operator-form Lindblad tensor from the *same* system-bath interaction object, both used inside one
        # basis context: the same action as outside, for both
        def twins():
            from quantarhei.qm import LindbladForm
            Tb = LindbladForm(ho, To.SystemBathInteraction if hasattr(To, "SystemBathInteraction") else To.sbi)
            outside = numpy.array(To.apply(Operator(data=A.copy())).data)
            with qr.eigenbasis_of(ho):
                o1 = To.apply(Operator(data=A.copy()))
                o2 = Tb.apply(Operator(data=A.copy()))
                a1, a2 = numpy.array(o1.data), numpy.array(o2.data)
            return outside, a1, a2
        ok, tw = guarded(ctx, "apply", twins, tag + "/op/twin")
        if ok:
            ctx.close("forms-from-the-same-interaction-act-identically", tw[2], tw[1], rtol=1e-9,
                      scale=max(1e-12, float(numpy.max(numpy.abs(tw[1])))), where=tag)

    # ---- (2) propagation with both forms ----------------------------------------------------------------
    rho0 = gens.density_matrix(case["rho"])
    m, nref = case["m"], case["nref"]
    if case["which"] == "lindblad":
        tp = ta
    else:
        tp = qr.TimeAxis(ta.start, (ta.length - 1) // m + 1, ta.step * m)

    pd = case.get("pd") if not case["td"] else None
    shared_rho = ReducedDensityMatrix(data=rho0.copy()) if case.get("share_rho") else None

    def prop(T, ham):
        if pd:
            from quantarhei.qm import PureDephasing
            g = 0.01 * (numpy.ones((dim, dim)) - numpy.eye(dim))
            p = ReducedDensityMatrixPropagator(tp, ham, T, PDeph=PureDephasing(drates=g if pd == "Lorentzian" else g / 20.0,
                                                                             dtype=pd))
        else:
            p = ReducedDensityMatrixPropagator(tp, ham, T)
        rin = shared_rho if shared_rho is not None else ReducedDensityMatrix(data=rho0.copy())
        if case.get("order"):
            return numpy.array(p.propagate(rin, method="short-exp-%d" % case["order"], Nref=nref).data)
        return numpy.array(p.propagate(rin, Nref=nref).data)
    ok1, d1 = guarded(ctx, "propagate", lambda: prop(To, ho), tag + "/op")
    ok2, d2 = guarded(ctx, "propagate", lambda: prop(Tt, ht), tag + "/tensor")
    tensor_dynamics_ok = ok2
    if ok1 and ok2:
        ctx.close("forms-propagate-identically", d1, d2, rtol=1e-9, scale=max(1.0, float(numpy.max(numpy.abs(d2)))),
                  where=tag + ("/pure-dephasing" if pd else "") + ("/shared-initial-state" if shared_rho is not None else ""),
                  m=m, nref=nref)
        if shared_rho is not None:
            ctx.close("initial-state-unchanged", numpy.array(shared_rho.data), rho0, rtol=1e-12, scale=1.0, where=tag)

    # ---- (1b) after conversion of the operator form ---------------------------------------------------------
    if not case["td"]:
        ok, _ = guarded(ctx, "convert_2_tensor", lambda: To.convert_2_tensor(), tag)
        if ok:
            compare("after-conversion", ho, ht)
            ok3, Rt = guarded(ctx, "read", lambda: (numpy.array(To.data), numpy.array(Tt.data)), tag)
            if ok3:
                ctx.close("conversion-equals-tensor", Rt[0], Rt[1], rtol=1e-9,
                          scale=max(1e-12, float(numpy.max(numpy.abs(Rt[1])))), where=tag)


    else:
        # time-dependent tensor: conversion of the operator form gives the five-index tensor, in every basis
        oth = SelfAdjointOperator(data=numpy.array(case["other"], dtype=float))
        ok, _ = guarded(ctx, "convert_2_tensor", lambda: To.convert_2_tensor(), tag)
        if ok:
            for bname, bo, bt in (("outside", None, None), ("eigenbasis_of(H)", ho, ht), ("other-basis", oth, oth)):
                def read(T, b):
                    if b is None:
                        return numpy.array(T.data)
                    with qr.eigenbasis_of(b):
                        return numpy.array(T.data)
                ok1, a = guarded(ctx, "read", lambda: read(To, bo), tag + "/converted", basis=bname)
                ok2, b = guarded(ctx, "read", lambda: read(Tt, bt), tag + "/tensor", basis=bname)
                if ok1 and ok2:
                    ctx.close("conversion-equals-tensor", a, b, rtol=1e-9, scale=max(1e-12, float(numpy.max(numpy.abs(b)))),
                              where=tag, basis=bname)
            # and the same dynamics after the conversion
            ok4, d3 = guarded(ctx, "propagate", lambda: prop(To, ho), tag + "/converted")
            if ok4 and tensor_dynamics_ok:
                ctx.close("forms-propagate-identically", d3, d2, rtol=1e-9, scale=max(1.0, float(numpy.max(numpy.abs(d2)))),
                          where=tag + "/after-conversion", m=m, nref=nref)


def _check_limit(case, ctx):
    import quantarhei as qr
    spec = case["spec"]
    tag = "limit" + ("/ops" if case["as_ops"] else "/tensor")
    ctx.label("limit")
    ctx.mark_nontrivial(True)

    t0, nt, dt = spec["time"]
    cutoff = None
    if case.get("cutoff_in_cortimes"):
        cutoff = dt * math.floor(case["cutoff_in_cortimes"] * max(b["cortime"] for b in spec["bath"]) / dt)
        if cutoff > (int(nt) - 2) * dt or cutoff < 4 * dt:
            cutoff = None
    route = case.get("route", "aggregate")
    tag = tag + ("/cutoff" if cutoff is not None else "") + "/" + route
    ctx.label("limit:" + route, "cutoff" if cutoff is not None else "no-cutoff")

    def build():
        from quantarhei.qm import RedfieldRelaxationTensor, TDRedfieldRelaxationTensor
        ta = qr.TimeAxis(t0, int(nt), dt)
        out = []
        for td in (True, False):
            agg = gens.make_aggregate(qr, spec)
            if route == "aggregate":
                kw = {} if cutoff is None else {"relaxation_cutoff_time": cutoff}
                RT, _ = agg.get_RelaxationTensor(ta, relaxation_theory="standard_Redfield", time_dependent=td,
                                                 as_operators=case["as_ops"], **kw)
            else:
                kw = {} if cutoff is None else {"cutoff_time": cutoff}
                ham, sbi = agg.get_Hamiltonian(), agg.get_SystemBathInteraction()
                ham.protect_basis()
                try:
                    with qr.eigenbasis_of(ham):
                        RT = (TDRedfieldRelaxationTensor if td else RedfieldRelaxationTensor)(
                            ham, sbi, as_operators=case["as_ops"], **kw)
                finally:
                    ham.unprotect_basis()
            if case["as_ops"]:
                RT.convert_2_tensor()
            out.append(numpy.array(RT.data))
        return out
    ok, r = guarded(ctx, "construct", build, tag)
    if not ok:
        return
    TD, ST = r
    sc = max(1e-12, float(numpy.max(numpy.abs(ST))))
    ctx.bound("td-vanishes-at-zero", float(numpy.max(numpy.abs(TD[0]))), 1e-12 * sc + 1e-300, where=tag)
    ctx.close("td-last-equals-static", TD[-1], ST, rtol=1e-9, scale=sc, where=tag)


def _check_deph(case, ctx):
    import quantarhei as qr
    from quantarhei.qm import ReducedDensityMatrixPropagator, ReducedDensityMatrix
    spec = case["spec"]
    n = len(spec["E"])
    T = spec["T"]
    m, nref = case["m"], case["nref"]
    rho0 = gens.density_matrix(case["rho"])
    ht = spec["bath"][0]["ftype"].endswith("HighTemperature")
    tag = "dephasing/%s/%s" % ("HT" if ht else "OB", "ops" if case["as_ops"] else "tensor")
    ctx.label("dephasing", "HT" if ht else "OB", "m=%d" % m, "nref=%d" % nref, "ops" if case["as_ops"] else "tensor")
    ctx.mark_nontrivial(max(b["reorg"] for b in spec["bath"]) >= 10)
    t0, nt, dt = spec["time"]

    def run():
        agg = gens.make_aggregate(qr, spec)
        ta = qr.TimeAxis(t0, int(nt), dt)
        RT, ham = agg.get_RelaxationTensor(ta, relaxation_theory="standard_Redfield", time_dependent=True,
                                           as_operators=case["as_ops"])
        tp = qr.TimeAxis(t0, (int(nt) - 1) // m + 1, dt * m)
        p = ReducedDensityMatrixPropagator(tp, ham, RT)
        rt = p.propagate(ReducedDensityMatrix(data=rho0.copy()), Nref=nref)
        return numpy.array(tp.data), numpy.array(rt.data)
    ok, r = guarded(ctx, "propagate", run, tag)
    if not ok:
        return
    t, data = r
    H = gens.site_hamiltonian_int(spec)
    Om = numpy.zeros(n + 1)
    Om[1:] = numpy.mean(numpy.diag(H)[1:])
    Hr = numpy.diag(H) - Om
    tf = numpy.linspace(t[0], t[-1], 20 * (len(t) - 1) + 1)      # fine grid for max |g'|
    g, gp = [numpy.zeros(len(t), dtype=complex)], [numpy.zeros(len(tf), dtype=complex)]
    tvb = [0.0]           # analytic bound of the total variation of g' per bath: every exponential term is monotone
    for b in spec["bath"]:
        lam = b["reorg"] * orc.CM2INT
        ex = (orc.ht_exponentials(lam, b["cortime"], T) if ht
              else orc.ob_exponentials(lam, b["cortime"], T, int(b.get("matsubara", 20))))
        g.append(orc.lineshape_g(t, ex))
        gp.append(sum((c / nu) * (1.0 - numpy.exp(-nu * tf)) for c, nu in ex))
        tvb.append(float(sum(abs((c / nu).real) + abs((c / nu).imag) for c, nu in ex)))
    dt_eff = dt * m / nref
    # Taylor truncation (order 4) of the free rotation + dephasing over one effective step
    x = dt_eff * (float(numpy.max(numpy.abs(Hr))) * 2 + max(float(numpy.max(numpy.abs(q))) for q in gp) * 2)
    trunc = len(t) * nref * x ** 5 / 120.0
    for a in range(n + 1):
        for c in range(n + 1):
            if a == c:
                ctx.close("populations-constant", data[:, a, a], numpy.full(len(t), rho0[a, a]), rtol=0, atol=1e-9,
                          where=tag)
                continue
            ref = rho0[a, c] * numpy.exp(-1j * (Hr[a] - Hr[c]) * t - g[a] - numpy.conj(g[c]))
            # the time-local propagation sums g'(t_n) dt instead of integrating g': the difference is bounded by
            # dt times the total variation of g' (equal to max |g'| where g' is monotone; Matsubara terms of either
            # sign make it larger - a thorough run found 1.01 x the max-based bound at T = 150 K with 42 terms)
            # (the variation is bounded analytically, term by term: fast Matsubara terms are not resolved by any grid)
            gsum = gp[a] + numpy.conj(gp[c])
            # factor 1.25: the tensor's own g'(t_n) come from a spline integration of C(t) that does not resolve the
            # fast Matsubara terms either (two thorough runs found 1.01 and 1.053 times the variation bound)
            model = (1.25 * abs(rho0[a, c]) * dt_eff * max(tvb[a] + tvb[c], float(numpy.max(numpy.abs(gsum))))
                     + 3 * trunc + 2e-4 * abs(rho0[a, c]) + 1e-9)
            ctx.bound("pure-dephasing-solution", float(numpy.max(numpy.abs(data[:, a, c] - ref))), model, where=tag,
                      m=m, nref=nref, a=a, c=c)
