"""C19  Two-dimensional response storage conserves what was added.

A case is a history of operations on one TwoDResponse (add at any level, with
or without explicit resolution, resolution changes, inadmissible operations).
Oracle: a reference model = the list of accepted additions; every admissible
view must equal the sum of the additions that belong to it, after every step.
"""
import numpy

from ..core import guarded
from hypothesis import strategies as st

ID = "C19"
TECHNIQUE = ("Hypothesis-generated operation histories interpreted on a TwoDResponse and on a list-of-additions "
             "reference model; all admissible views compared after every step")
LEVEL = ("(Tags are strings or integers, including 0 and the empty string.) Histories of up to 14 (quick) / 30 (thorough) operations - additions at pathway/type/process/signal/total "
         "level with and without an explicit resolution, repeated tags, unknown keys, tags at non-pathway levels, "
         "cross-level additions, admissible and inadmissible resolution changes - are replayed on a TwoDResponse. "
         "After every step each admissible view (every pathway, type, process, signal, total, get_all_data) must "
         "equal the sum of the accepted additions that belong to it; refused operations must leave every view "
         "unchanged. Integer-valued complex arrays make the comparison exact."
         " Later additions: caller-owned arrays handed over without a copy and re-used; tags that print the same.")
NOTE = ("Membership tables (type -> process, type -> signal) are typed into the oracle and checked to partition the "
        "eight pathway types. Reads on an object to which nothing has been added are not claimed. Array shapes are "
        "2x2 and 3x2 only.")
RULE = ("history = list of ops {add(mode, key index, tag, integer complex array) | set_resolution(level)}; modes: "
        "implicit resolution, explicit same level, explicit other level (cross-level), unknown key, tag at a "
        "non-pathway level, missing tag at pathway level. Non-trivial: >= 3 accepted additions, >= 1 resolution "
        "reduction and >= 1 view comparison after it.")
ASSUMPTIONS = [
    "an operation is 'refused' when it raises; a refused operation must leave all admissible views unchanged",
    "views are compared only once at least one addition has been accepted (reads of an empty object are not claimed)",
]
BUDGET = {"quick": (1500, 60), "thorough": (8000, 500)}

PTYPES = ["R1g", "R2g", "R3g", "R4g", "R1fs", "R2fs", "R3fs", "R4fs"]
PROCESSES = {"GSB": ["R1g", "R2g"], "SE": ["R3g", "R4g"], "ESA": ["R1fs", "R2fs"], "DC": ["R3fs", "R4fs"]}
REPH, NONR, DC, TOTL = "rephasing_2D_signal", "nonrephasing_2D_signal", "double_coherence_signal", "total_2D_signal"
SIGNALS = {REPH: ["R2g", "R3g", "R1fs"], NONR: ["R1g", "R4g", "R2fs"], DC: ["R3fs", "R4fs"]}
LEVELS = ["off", "signals", "processes", "types", "pathways"]
KEYS = {"pathways": PTYPES, "types": PTYPES, "processes": sorted(PROCESSES), "signals": [REPH, NONR, DC],
        "off": [TOTL]}
CONVERT_OK = {("pathways", "types"), ("pathways", "processes"), ("pathways", "signals"), ("pathways", "off"),
              ("types", "processes"), ("types", "signals"), ("types", "off"), ("processes", "off"),
              ("signals", "off")}
TAGS = ["a", "b", "c", "d", 0, 1, "", "1", "0"]        # string and integer tags, including the ones that evaluate false
MODES = ["cur", "cur", "cur", "cur", "same", "cross", "badkey", "badtag"]


@st.composite
def _hist(draw, nmax):
    shape = draw(st.sampled_from([[2, 2], [3, 2]]))
    n = shape[0] * shape[1]
    # "own": the caller hands over its own array object (no copy) and keeps using it; "reuse": the array object of the
    # previous addition is handed over again (the same contribution added at another address)
    add = st.builds(lambda mode, k, tag, lev, arr, own, reuse: {"op": "add", "mode": mode, "k": k, "tag": tag, "lev": lev,
                                                                 "arr": arr, "own": own, "reuse": reuse},
                    st.sampled_from(MODES), st.integers(0, 7), st.sampled_from(TAGS),
                    st.sampled_from(LEVELS), st.lists(st.integers(-5, 5), min_size=2 * n, max_size=2 * n),
                    st.booleans(), st.sampled_from([False, False, True]))
    add = st.builds(lambda a, sc: dict(a, scribble=sc), add, st.sampled_from([False, False, True]))
    setres = st.builds(lambda lev: {"op": "res", "lev": lev}, st.sampled_from(LEVELS + ["bogus"]))
    ops = draw(st.lists(st.one_of(add, add, add, add, setres), min_size=1, max_size=nmax))
    first = draw(st.sampled_from([None, None, "pathways", "types", "processes", "signals", "off"]))
    return {"shape": shape, "first_resolution": first, "ops": ops}


@st.composite
def _container(draw):
    """a container of responses (one per waiting time) read through container-level flags, with further additions to
    members and derived containers taken in between"""
    nt2 = draw(st.integers(2, 3))
    arr = st.lists(st.integers(-3, 3), min_size=8, max_size=8)
    members = [{"R": draw(arr), "N": draw(arr)} for _ in range(nt2)]
    op = st.one_of(
        st.builds(lambda f: {"op": "flag", "flag": f}, st.sampled_from(["R", "N", "T"])),
        st.builds(lambda k, f, a: {"op": "add", "member": k, "flag": f, "arr": a}, st.integers(0, nt2 - 1),
                  st.sampled_from(["R", "N"]), arr),
        st.builds(lambda f: {"op": "derive", "flag": f}, st.sampled_from(["R", "N", "T"])),
        st.just({"op": "read"}))
    return {"kind": "container", "members": members, "ops": draw(st.lists(op, min_size=3, max_size=10))}


def strategy(tier):
    return st.one_of(_hist(14 if tier == "quick" else 30), _hist(14 if tier == "quick" else 30), _container())


def _check_container(case, ctx):
    import quantarhei as qr
    from quantarhei.spectroscopy.twod2 import TwoDResponse
    from quantarhei.spectroscopy.twodcontainer import TwoDResponseContainer
    flags = {"R": qr.signal_REPH, "N": qr.signal_NONR, "T": qr.signal_TOTL}

    def cplx(v):
        return (numpy.array(v[:4], dtype=float) + 1j * numpy.array(v[4:], dtype=float)).reshape(2, 2)
    t2axis = qr.TimeAxis(0.0, len(case["members"]), 10.0)
    model = []

    def build():
        cont = TwoDResponseContainer(t2axis=t2axis)
        for k, m in enumerate(case["members"]):
            resp = TwoDResponse()
            resp.set_axis_1(qr.FrequencyAxis(0.0, 2, 1.0))
            resp.set_axis_3(qr.FrequencyAxis(0.0, 2, 1.0))
            resp.set_t2(float(t2axis.data[k]))
            resp.set_resolution("signals")
            a, b = cplx(m["R"]), cplx(m["N"])
            resp._add_data(a.copy(), dtype=qr.signal_REPH)
            resp._add_data(b.copy(), dtype=qr.signal_NONR)
            model.append({"R": a.copy(), "N": b.copy()})
            cont.set_spectrum(resp)
        return cont
    ok, cont = guarded(ctx, "container/build", build)
    if not ok:
        return
    ctx.label("container", "members=%d" % len(model))
    current = None
    moved = False
    nontrivial = False
    for step, op in enumerate(case["ops"]):
        def view(k, f):
            return model[k]["R"] + model[k]["N"] if f == "T" else model[k][f]
        if op["op"] == "flag":
            ok, _ = guarded(ctx, "container/set_data_flag", lambda: cont.set_data_flag(flags[op["flag"]]))
            if not ok:
                return
            if current == op["flag"] and moved:
                nontrivial = True
            current, moved = op["flag"], False
        elif op["op"] == "add":
            k = op["member"] % len(model)
            a = cplx(op["arr"])
            ok, _ = guarded(ctx, "container/add", lambda: cont.get_spectrum(float(t2axis.data[k]))._add_data(
                a.copy(), dtype=flags[op["flag"]]))
            if not ok:
                return
            model[k][op["flag"]] = model[k][op["flag"]] + a
            moved = True            # (an addition moves the member's own flag)
        elif op["op"] == "derive":
            ok, der = guarded(ctx, "container/derive", lambda: cont.get_TwoDSpectrumContainer(stype=flags[op["flag"]]))
            if not ok:
                return
            moved = True
            for k in range(len(model)):
                ok, got = guarded(ctx, "container/derive", lambda: numpy.array(der.get_spectrum(float(t2axis.data[k])).data))
                if ok and not ctx.close("container/derived-view", got, view(k, op["flag"]), rtol=0, atol=1e-12,
                                        where=op["flag"], step=step):
                    return
        elif current is not None:
            # a read through the container is preceded by setting the container's flag, as the library's own users do
            ok, _ = guarded(ctx, "container/set_data_flag", lambda: cont.set_data_flag(flags[current]))
            if not ok:
                return
            if moved:
                nontrivial = True
            moved = False
            for k in range(len(model)):
                ok, got = guarded(ctx, "container/read", lambda: numpy.array(cont.get_spectrum(float(t2axis.data[k])).d__data))
                if not ok:
                    return
                if not ctx.close("container/view", got, view(k, current), rtol=0, atol=1e-12, where=current, step=step,
                                 member=k):
                    return
    ctx.mark_nontrivial(nontrivial)


def _type_of(level, key):
    """pathway types an addition (level, key) covers"""
    if level in ("pathways", "types"):
        return [key]
    if level == "processes":
        return PROCESSES[key]
    if level == "signals":
        return SIGNALS[key]
    return PTYPES


def expected_views(storage, adds, shape):
    """All admissible views at storage resolution -> expected array (or None if nothing belongs to it)."""
    def total_of(sel):
        acc = None
        for a in adds:
            if sel(a):
                acc = a["arr"].copy() if acc is None else acc + a["arr"]
        return acc
    views = {}
    r = LEVELS.index(storage)
    if r == 4:
        for a in adds:
            views[("pathway", a["key"], a["tag"])] = total_of(
                lambda b, a=a: b["level"] == "pathways" and b["key"] == a["key"] and b["tag"] == a["tag"])
    if r >= 3:
        for t in PTYPES:
            views[("type", t)] = total_of(lambda b, t=t: b["level"] in ("pathways", "types") and b["key"] == t)
    if r >= 3 or r == 2:
        for p, ts in PROCESSES.items():
            views[("process", p)] = total_of(
                lambda b, p=p, ts=ts: (b["level"] in ("pathways", "types") and b["key"] in ts)
                or (b["level"] == "processes" and b["key"] == p))
    if r >= 3 or r == 1:
        for s, ts in SIGNALS.items():
            views[("signal", s)] = total_of(
                lambda b, s=s, ts=ts: (b["level"] in ("pathways", "types") and b["key"] in ts)
                or (b["level"] == "signals" and b["key"] == s))
    views[("total", TOTL)] = total_of(lambda b: True)
    return views


def read_view(tw, view):
    if view[0] == "pathway":
        tw.set_data_flag([view[1], view[2]])
    else:
        tw.set_data_flag(view[1])
    return tw.d__data


def compare_views(ctx, tw, storage, adds, shape, clause, where, step):
    zeros = numpy.zeros(shape, dtype=complex)
    n = 0
    for view, want in expected_views(storage, adds, shape).items():
        try:
            got = read_view(tw, view)
        except Exception as e:
            ctx.fail(clause + "/read-raises", where, view=list(view), exc=type(e).__name__, msg=str(e)[:120],
                     step=step)
            return False, n
        n += 1
        if got is None:
            if want is not None and numpy.any(want != 0):
                ctx.fail(clause, where, view=list(view), got=None, want=want, step=step)
                return False, n
            continue
        got = numpy.asarray(got)
        w = zeros if want is None else want
        if got.shape != w.shape or not numpy.allclose(got, w, rtol=0, atol=1e-12):
            ctx.fail(clause, where, view=list(view), got=got, want=w, step=step)
            return False, n
    # get_all_data: the stored pieces add up to the total
    try:
        alld = tw.get_all_data()
        acc = zeros.copy()
        for v in alld.values():
            acc = acc + numpy.asarray(v)
        want = expected_views(storage, adds, shape)[("total", TOTL)]
        if want is not None and not numpy.allclose(acc, want, rtol=0, atol=1e-12):
            pw = [(a["key"], a["tag"]) for a in adds if a["level"] == "pathways"]
            collide = storage == "pathways" and any(k1 == k2 and t1 != t2 and str(t1) == str(t2)
                                                    for i, (k1, t1) in enumerate(pw) for (k2, t2) in pw[i + 1:])
            if collide:
                # (a narrower name for the one view that is keyed by the text of the tags)
                ctx.fail(clause + "/all-data-view", where + "/tags-of-equal-text", got=acc, want=want, step=step)
            else:
                ctx.fail(clause, where, view=["get_all_data"], got=acc, want=want, step=step)
            return False, n
    except Exception as e:
        ctx.fail(clause + "/read-raises", where, view=["get_all_data"], exc=type(e).__name__, step=step)
        return False, n
    return True, n


def check_case(case, ctx):
    if case.get("kind") == "container":
        return _check_container(case, ctx)
    import quantarhei as qr
    from quantarhei.spectroscopy.twod2 import TwoDResponse
    from quantarhei.spectroscopy import twod2
    # the oracle's membership tables must partition the pathway types, and be the documented ones
    for table in (PROCESSES, SIGNALS):
        flat = sorted(t for ts in table.values() for t in ts)
        assert flat == sorted(PTYPES)
    if (twod2._ptypes != PTYPES or {k: list(v) for k, v in twod2._processes.items()} != PROCESSES
            or {k: list(v) for k, v in twod2._signals.items()} != SIGNALS):
        ctx.fail("tables", why="documented pathway-type tables changed")
        return

    shape = tuple(case["shape"])
    npts = shape[0] * shape[1]
    tw = TwoDResponse()
    with qr.energy_units("int"):
        tw.set_axis_1(qr.FrequencyAxis(0.0, shape[0], 1.0))
        tw.set_axis_3(qr.FrequencyAxis(0.0, shape[1], 1.0))
    storage = "pathways"
    initialized = False
    adds = []
    held = []            # (array object the caller kept, its value when it was handed over)
    reductions = 0
    compared_after_reduction = 0
    first_res = case["first_resolution"]

    for step, op in enumerate(case["ops"]):
        if op["op"] == "res":
            new = op["lev"]
            admissible = new in LEVELS and (new == storage or (storage, new) in CONVERT_OK)
            where = "%s->%s" % (storage, new)
            try:
                tw.set_resolution(new)
                raised = False
            except Exception:
                raised = True
            if admissible and raised:
                ctx.fail("set_resolution/refused-admissible", where, step=step)
                return
            if not admissible and not raised:
                ctx.fail("set_resolution/accepted-inadmissible", where, step=step)
                return
            if admissible and new != storage:
                storage = new
                if initialized:
                    reductions += 1
            if tw.get_resolution() != storage:
                ctx.fail("set_resolution/bookkeeping", where, got=tw.get_resolution(), want=storage, step=step)
                return
            ctx.label("res:" + ("ok" if admissible else "refused"))
            if initialized:
                ok, n = compare_views(ctx, tw, storage, adds, shape,
                                      "conversion" if admissible else "refusal-changed-data", where, step)
                if not ok:
                    return
                if reductions:
                    compared_after_reduction += n
            continue

        # ---- add ---------------------------------------------------------
        arr = (numpy.array(op["arr"][:npts], dtype=float)
               + 1j * numpy.array(op["arr"][npts:], dtype=float)).reshape(shape)
        if op.get("reuse") and op.get("own") and held:
            arr = held[-1][0]                # the very same array object as in an earlier addition
            ctx.label("add:same-array-object-again")
        mode = op["mode"]
        explicit = None
        if not initialized and first_res is not None and mode in ("cur", "same"):
            # the first addition may define the storage resolution explicitly
            mode, explicit = "first", first_res
        if mode == "cur":
            level = storage
        elif mode == "same":
            level = explicit = storage
        elif mode == "first":
            level = explicit
        elif mode == "cross":
            level = explicit = op["lev"]
        else:
            level = storage
        keys = KEYS[level]
        key = keys[op["k"] % len(keys)]
        tag = op["tag"] if level == "pathways" else None
        if mode == "badkey":
            other = [x for x in PTYPES + list(PROCESSES) + list(SIGNALS) + [TOTL, "XYZ"] if x not in keys]
            key = other[op["k"] % len(other)]
        if mode == "badtag":
            tag = None if level == "pathways" else op["tag"]

        if not initialized and explicit is not None:
            eff_storage = explicit          # documented: first addition with a resolution defines the storage
        else:
            eff_storage = storage
        admissible = (level == eff_storage and key in keys
                      and ((tag is not None) if level == "pathways" else (tag is None)))
        if admissible and level == "pathways":
            if any(a["level"] == "pathways" and a["key"] == key and a["tag"] == tag for a in adds):
                admissible = False          # duplicate tag
                mode = "duptag"
        where = "%s@%s/%s" % (level, eff_storage, mode)
        arr_val = arr.copy()         # the contribution, as it is at the time of the addition
        if op.get("own"):
            given = arr
            held.append((arr, arr.copy()))
        else:
            given = arr.copy()
        try:
            if explicit is None:
                tw._add_data(given, dtype=key, tag=tag)
            else:
                tw._add_data(given, resolution=explicit, dtype=key, tag=tag)
            raised = False
        except Exception:
            raised = True
        for obj, snap in held:
            if not numpy.array_equal(obj, snap):
                ctx.fail("add/callers-array-changed", where, step=step)
                return
        if op.get("own") and op.get("scribble") and not raised:
            # the caller goes on using its array for something else: what was added stays what it was
            held[:] = [(o_, s_) for o_, s_ in held if o_ is not given]
            given += 7.0 - 3.0j
            ctx.label("add:caller-overwrites-its-array-afterwards")
        if not initialized and not raised:
            initialized = True
            storage = eff_storage
        elif not initialized and raised:
            # a refused first addition may still have initialised the storage
            if getattr(tw, "storage_initialized", False):
                initialized = True
                storage = tw.get_resolution() if tw.get_resolution() in LEVELS else storage
        ctx.label("add:%s:%s" % (mode, "ok" if not raised else "refused"))
        if admissible and raised:
            ctx.fail("add/refused-admissible", where, step=step, key=key, tag=tag)
            return
        if not raised:
            if not admissible:
                # accepted although the model says inadmissible: what it must then do is conserve the data.
                # the only sensible accounting for an accepted addition is "belongs to (level, key)"
                if level not in LEVELS or key not in KEYS.get(level, []):
                    ctx.fail("add/accepted-inadmissible", where, step=step, key=key, tag=tag)
                    return
            adds.append({"level": level, "key": key, "tag": tag, "arr": arr_val})
        if tw.get_resolution() != storage:
            ctx.fail("add/bookkeeping", where, got=tw.get_resolution(), want=storage, step=step)
            return
        if initialized:
            clause = "add-conservation" if not raised else "refusal-changed-data"
            ok, n = compare_views(ctx, tw, storage, adds, shape, clause, where, step)
            if not ok:
                return
            if reductions:
                compared_after_reduction += n

    ctx.mark_nontrivial(len(adds) >= 3 and reductions >= 1 and compared_after_reduction >= 1)
