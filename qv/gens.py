"""Shared Hypothesis strategies and object construction helpers.

Strategies produce plain JSON-serialisable specs; `make_*` turn a spec into
quantarhei objects following the documented construction pattern.
"""
import numpy
from hypothesis import strategies as st

from . import oracles as orc


# ---------------------------------------------------------------------------
# aggregates of two-level molecules with baths
# ---------------------------------------------------------------------------

@st.composite
def system_spec(draw, nmin=1, nmax=4, coupled=None, bath=True, ftypes=("OverdampedBrownian",),
                tmin=50, tmax=400, ntmax=600, lam=(5, 150), tauc=(20, 200), same_bath=None, dipoles=True,
                emin=9000, emax=16000, spread=600, jmax=400):
    """N two-level molecules: energies (cm^-1), couplings (cm^-1), dipoles (D), one bath per site."""
    n = draw(st.integers(nmin, nmax))
    e0 = draw(st.integers(emin, emax))
    E = [e0 + draw(st.integers(-spread, spread)) for _ in range(n)]
    J = [[0] * n for _ in range(n)]
    for i in range(n):
        for j in range(i + 1, n):
            if coupled is False:
                v = 0
            elif coupled is True:
                v = draw(st.integers(20, jmax)) * draw(st.sampled_from([1, -1]))
            else:
                v = draw(st.sampled_from([0, 1, 1])) * draw(st.integers(-jmax, jmax))
            J[i][j] = J[j][i] = v
    spec = {"E": E, "J": J}
    if dipoles:
        comp = st.integers(-6, 6).map(lambda k: k / 2.0)
        spec["d"] = [[draw(comp), draw(comp), draw(comp)] for _ in range(n)]
    if bath:
        T = draw(st.integers(tmin, tmax))
        dt = draw(st.sampled_from([0.5, 1.0, 2.0]))
        shared = draw(st.booleans()) if same_bath is None else same_bath
        baths = []
        for i in range(n):
            if shared and i > 0:
                baths.append(dict(baths[0]))
                continue
            baths.append({"ftype": draw(st.sampled_from(list(ftypes))),
                          "reorg": draw(st.integers(*lam)), "cortime": draw(st.integers(*tauc)),
                          "matsubara": draw(st.integers(10, 100))})
        tcmax = max(b["cortime"] for b in baths)
        nt = int(min(ntmax, max(60, draw(st.integers(8, 12)) * tcmax / dt)))
        spec.update({"T": T, "bath": baths, "time": [0.0, nt, dt]})
    return spec


def bath_params(b, T):
    p = {"ftype": b["ftype"], "reorg": float(b["reorg"]), "cortime": float(b["cortime"]), "T": float(T)}
    if b["ftype"] == "OverdampedBrownian":
        p["matsubara"] = int(b.get("matsubara", 20))
    return p


def make_aggregate(qr, spec, mult=1, build=True, rwa=True):
    """Documented pattern: molecules (energies under 1/cm), dipoles, per-site correlation
    functions on a common TimeAxis, couplings, build()."""
    n = len(spec["E"])
    time = None
    if "bath" in spec:
        t0, nt, dt = spec["time"]
        time = qr.TimeAxis(t0, int(nt), dt)
    mols = []
    with qr.energy_units("1/cm"):
        for i in range(n):
            # optional non-zero ground-state energies: a constant shift of the whole Hamiltonian
            g0 = float(spec["ground"][i]) if spec.get("ground") else 0.0
            m = qr.Molecule([g0, g0 + float(spec["E"][i])])
            if "d" in spec:
                m.set_dipole(0, 1, list(spec["d"][i]))
            if time is not None and not spec.get("correlated"):
                cf = qr.CorrelationFunction(time, bath_params(spec["bath"][i], spec["T"]))
                m.set_transition_environment((0, 1), cf)
            mols.append(m)
        cm = None
        if time is not None and spec.get("correlated"):
            # fully correlated energy-gap fluctuations: one correlation function for every pair of sites, handed over
            # as a correlation function matrix to which the molecules' transitions are mapped
            from quantarhei.qm.corfunctions import CorrelationFunctionMatrix
            cf = qr.CorrelationFunction(time, bath_params(spec["bath"][0], spec["T"]))
            cm = CorrelationFunctionMatrix(time, n)
            cm.set_correlation_function(cf, [(i, j) for i in range(n) for j in range(n)])
            for i, m in enumerate(mols):
                m.set_egcf_mapping((0, 1), cm, i)
        agg = qr.Aggregate(molecules=mols)
        if cm is not None:
            agg.set_egcf_matrix(cm)
        for i in range(n):
            for j in range(i + 1, n):
                if spec["J"][i][j] != 0:
                    agg.set_resonance_coupling(i, j, float(spec["J"][i][j]))
    if build:
        agg.build(mult=mult)
    return agg


def site_hamiltonian_int(spec):
    """One-exciton + ground Hamiltonian in internal units from the spec alone (oracle side)."""
    n = len(spec["E"])
    H = numpy.zeros((n + 1, n + 1))
    for i in range(n):
        H[i + 1, i + 1] = spec["E"][i] * orc.CM2INT
        for j in range(n):
            if i != j:
                H[i + 1, j + 1] = spec["J"][i][j] * orc.CM2INT
    return H


# ---------------------------------------------------------------------------
# small matrices
# ---------------------------------------------------------------------------

@st.composite
def symmetric_matrix(draw, dim, lo=-1000, hi=1000, scale=0.001, diag_lo=None, diag_hi=None):
    """Real symmetric matrix on a lattice (list of lists)."""
    M = [[0.0] * dim for _ in range(dim)]
    for i in range(dim):
        for j in range(i, dim):
            if i == j and diag_lo is not None:
                v = draw(st.integers(diag_lo, diag_hi))
            else:
                v = draw(st.integers(lo, hi) | st.just(0))
            M[i][j] = M[j][i] = v * scale
    return M


@st.composite
def density_matrix_spec(draw, dim, pure=None):
    """rho = A A^+ / tr with Gaussian-integer A; returned as the integer matrix A (re, im)."""
    cols = 1 if (pure if pure is not None else draw(st.booleans())) else draw(st.integers(1, dim))
    ent = st.integers(-3, 3)
    A = [[[draw(ent), draw(ent)] for _ in range(cols)] for _ in range(dim)]
    if all(a[0] == 0 and a[1] == 0 for row in A for a in row):
        A[0][0] = [1, 0]
    return A


def density_matrix(A):
    A = numpy.array([[complex(a[0], a[1]) for a in row] for row in A])
    rho = A @ A.conj().T
    return rho / numpy.trace(rho).real


@st.composite
def complex_matrix(draw, dim, lo=-5, hi=5):
    ent = st.integers(lo, hi)
    return [[[draw(ent), draw(ent)] for _ in range(dim)] for _ in range(dim)]


def to_complex(M):
    return numpy.array([[complex(a[0], a[1]) for a in row] for row in M])
